"""Model-table entries and spec symbols for the functional (Chebyshev) TT routines of teneva/func.py (contracts/func_more.py; C12, C11).

Everything follows the wrapping pattern of kr.py (keep the previous hook, fall through to it) and is ACTIVE ONLY for executors that
carry the flag `ex.functt = True`, so that the units of the other contract files see exactly the engine they were written against.

New theory symbols (every group is exercised by lemmas/spotcheck.py through lemmas/spotcheck_ext_func.py):
  cheb(k, x)                 T_k(x) by the three-term recurrence (same declaration as in contracts/func.py)            group 'cheb'
  cmode(G, M)                np.einsum('riq,ij->rjq', G, M): mode product of a core with a matrix                      group 'cmode'
  modesum(G, M, a, j, b, k)  sum_{i<k} G[a, i, b] * M[i, j]      (the defining finite sum of cmode)                    group 'cmode'
  chebsum(G, x, a, b, k)     sum_{i<k} G[a, i, b] * T_i(x)       (spec function of func_gets / func_get)               group 'chebsum'
  cslset(G, j, M)            G with the mode slice G[:, j, :] replaced by M                                            group 'cslset'
  dct1(G)                    scipy.fftpack.dct(G, 1, axis=1)  (un-normalised DCT-I along the mode axis)                group 'dct1'
  dct1sum(G, a, k, b, j)     sum_{1<=i<j} G[a, i, b] * cos(pi k i / (n-1)),  sgnpow(k) = (-1)^k                        group 'dct1'
  cstep2(G)                  G[:, ::2]  (every second mode slice)                                                      group 'cstep2'
  ccchain(Y, a, b, w, k)     prod_{t<k} (b_t-a_t)/2 * wsum(cstep2(Y[t]), w)  (spec function of func_sum)               group 'ccchain'
"""
import ast
import z3
from ttvc import symex
from ttvc.symex import (Unsupported, ContractMismatch, NONE, VStr, VOpt, VTuple, VRef, VList, VSeq, VArr, VFunc, VOpaque, Z, is_num,
                        is_intsort)
from ttvc import models as M, theory as T, vec as V, pt as PT
from ttvc.models import model, used, to_real

I, R = z3.IntSort(), z3.RealSort()
IA = z3.ArraySort(I, I)
RA = z3.ArraySort(I, R)
MA = z3.ArraySort(I, T.Mat)


def on(ex):
    return getattr(ex, 'functt', False)


# ----------------------------------------------------------------------------------------------
# theory

cheb = z3.Function('cheb', I, R, R)
cmode = z3.Function('cmode', T.Core, T.Mat, T.Core)
modesum = z3.Function('modesum', T.Core, T.Mat, I, I, I, I, R)
chebsum = z3.Function('chebsum', T.Core, R, I, I, I, R)

_k, _k1, _k2, _a, _b, _j = z3.Ints('k!f k1!f k2!f a!f b!f j!f')
_x = z3.Real('x!f')
_G, _M = T.G_, T.a_

T.GROUPS['cheb'] = [
    T.A([_x], z3.And(cheb(0, _x) == 1, cheb(1, _x) == _x), [cheb(0, _x), cheb(1, _x)]),
    T.A([_k, _k1, _k2, _x], z3.Implies(z3.And(_k >= 0, _k1 == _k + 1, _k2 == _k + 2), cheb(_k2, _x) == 2 * _x * cheb(_k1, _x) - cheb(_k, _x)),
        [z3.MultiPattern(cheb(_k, _x), cheb(_k1, _x), cheb(_k2, _x))]),
]
T.GROUPS['cmode'] = [
    T.A([_G, _M], z3.And(T.d0(cmode(_G, _M)) == T.d0(_G), T.d1(cmode(_G, _M)) == T.cols(_M), T.d2(cmode(_G, _M)) == T.d2(_G)), [cmode(_G, _M)]),
    T.A([_G, _M, _a, _j, _b], z3.Implies(T.rows(_M) == T.d1(_G), T.centry(cmode(_G, _M), _a, _j, _b) == modesum(_G, _M, _a, _j, _b, T.d1(_G))),
        [T.centry(cmode(_G, _M), _a, _j, _b)]),
    T.A([_G, _M, _a, _j, _b], modesum(_G, _M, _a, _j, _b, 0) == 0, [modesum(_G, _M, _a, _j, _b, 0)]),
    T.A([_G, _M, _a, _j, _b, _k, _k1], z3.Implies(z3.And(_k >= 0, _k1 == _k + 1),
                                                  modesum(_G, _M, _a, _j, _b, _k1)
                                                  == modesum(_G, _M, _a, _j, _b, _k) + T.rmul(T.centry(_G, _a, _k, _b), T.ent(_M, _k, _j))),
        [z3.MultiPattern(modesum(_G, _M, _a, _j, _b, _k), modesum(_G, _M, _a, _j, _b, _k1))]),
]
T.GROUPS['chebsum'] = [
    T.A([_G, _x, _a, _b], chebsum(_G, _x, _a, _b, 0) == 0, [chebsum(_G, _x, _a, _b, 0)]),
    T.A([_G, _x, _a, _b, _k, _k1], z3.Implies(z3.And(_k >= 0, _k1 == _k + 1),
                                              chebsum(_G, _x, _a, _b, _k1) == chebsum(_G, _x, _a, _b, _k) + T.rmul(T.centry(_G, _a, _k, _b), cheb(_k, _x))),
        [z3.MultiPattern(chebsum(_G, _x, _a, _b, _k), chebsum(_G, _x, _a, _b, _k1))]),
]


# ----------------------------------------------------------------------------------------------
# column views of vectors:  np.arange(m).reshape((-1, 1))  and  X.reshape(-1)
#
# 'icol' / 'rcol': a 2-D array of shape (n, 1) whose entry [j, 0] is t[j] (t: z3 array Int -> Int / Real)

def is_vec(v, tag):
    return isinstance(v, VArr) and v.ndim == 1 and v.tag == tag and v.t is not None and not callable(v.t) and z3.is_array(v.t)


def rvec(n, arr):
    return V.RVec(n, arr)


def ivec(n, arr):
    return VArr((n,), arr, 'ivec', 'i')


def _is_m1(x):
    return isinstance(x, int) and not isinstance(x, bool) and x == -1


def _is_1(x):
    return isinstance(x, int) and not isinstance(x, bool) and x == 1


_orig_reshape = M.reshape


def reshape(ex, st, a, shp, order, node):
    if on(ex) and isinstance(a, VArr):
        try:
            dims = M.shape_arg(ex, st, shp, node)
        except Unsupported:
            dims = None
        if dims is not None and len(dims) == 2 and _is_m1(dims[0]) and _is_1(dims[1]) and (is_vec(a, 'ivec') or is_vec(a, 'rvec')):
            used('v.reshape((-1, 1)) of a vector -> the (n, 1) column with the same entries')
            return VArr((a.shape[0], 1), a.t, 'icol' if a.tag == 'ivec' else 'rcol', a.dtype)
        if dims is not None and len(dims) == 1 and _is_m1(dims[0]) and a.ndim == 2 and a.tag in ('icol', 'rcol'):
            used('C.reshape(-1) of an (n, 1) column -> the vector with the same entries')
            return ivec(a.shape[0], a.t) if a.tag == 'icol' else rvec(a.shape[0], a.t)
    return _orig_reshape(ex, st, a, shp, order, node)


M.reshape = reshape


# ----------------------------------------------------------------------------------------------
# np.einsum('riq,ij->rjq', G, M): mode product

_orig_einsum = M.FUNCS['np.einsum']


@model('np.einsum')
def m_einsum_func(ex, st, args, kwargs, node):
    sub = args[0].concrete() if args and isinstance(args[0], VStr) else None
    key = (sub or '').replace(' ', '')
    if on(ex) and key == 'riq,ij->rjq' and len(args) == 3 and not kwargs:
        G, Mx = st.deref(args[1]), st.deref(args[2])
        if isinstance(G, VArr) and G.ndim == 3 and G.tag == 'core' and G.t is not None and isinstance(Mx, VArr) and Mx.ndim == 2 \
                and Mx.tag == 'mat' and Mx.t is not None:
            used("np.einsum('riq,ij->rjq', G, M) -> cmode(G, M): entry [r, j, q] = sum_i G[r, i, q] * M[i, j]; requires n(G) = rows(M)")
            ex.oblige(st, 'call-pre', 'einsum-contracted-dimensions-agree', Z(G.shape[1]) == Z(Mx.shape[0]), node)
            return VArr((G.shape[0], Mx.shape[1], G.shape[2]), cmode(G.t, Mx.t), 'core')
    return _orig_einsum(ex, st, args, kwargs, node)


# ----------------------------------------------------------------------------------------------
# `kind in ['cheb', 'sin']` (assert statements under ex.asserts = True)

_orig_contains = M.contains


def contains(ex, st, l, r, neg, node):
    if on(ex) and isinstance(l, VStr) and isinstance(r, (VList, VTuple)) and all(isinstance(x, VStr) for x in r.items):
        c = z3.Or([l.code == x.code for x in r.items]) if r.items else z3.BoolVal(False)
        return z3.Not(c) if neg else c
    return _orig_contains(ex, st, l, r, neg, node)


M.contains = contains


# ----------------------------------------------------------------------------------------------
# func_int:  A = [None] * len(Y);  A[k] = dct(y, 1, axis=1) / (n - 1);  A[k][:, 0, :] /= 2.;  A[k][:, -1, :] /= 2.
#
# theory: slice replacement, the DCT-I operator with its defining sum, entries of a core through its slices

cslset = z3.Function('cslset', T.Core, I, T.Mat, T.Core)
dct1 = z3.Function('dct1', T.Core, T.Core)
dct1sum = z3.Function('dct1sum', T.Core, I, I, I, I, R)
sgnpow = z3.Function('sgnpow', I, R)


def dct_angle(G, k, i):
    """pi * k * i / (n - 1) for the mode size n of G (the product of the two indices in the engine's product abstraction mulI)."""
    return M.PI * (z3.ToReal(T.mulI(k, i)) / z3.ToReal(T.d1(G) - 1))


T.GROUPS['cslset'] = [
    T.A([_G, _j, _M], z3.And(T.d0(cslset(_G, _j, _M)) == T.d0(_G), T.d1(cslset(_G, _j, _M)) == T.d1(_G), T.d2(cslset(_G, _j, _M)) == T.d2(_G)),
        [cslset(_G, _j, _M)]),
    T.A([_G, _j, _M, _k], z3.Implies(z3.And(T.rows(_M) == T.d0(_G), T.cols(_M) == T.d2(_G), 0 <= _j, _j < T.d1(_G), 0 <= _k, _k < T.d1(_G)),
                                     T.sl(cslset(_G, _j, _M), _k) == z3.If(_k == _j, _M, T.sl(_G, _k))), [T.sl(cslset(_G, _j, _M), _k)]),
]
T.GROUPS['dct1'] = [
    T.A([_G], z3.And(T.d0(dct1(_G)) == T.d0(_G), T.d1(dct1(_G)) == T.d1(_G), T.d2(dct1(_G)) == T.d2(_G)), [dct1(_G)]),
    T.A([_G, _a, _k, _b], z3.Implies(z3.And(T.d1(_G) >= 2, 0 <= _k, _k < T.d1(_G)),
                                     T.centry(dct1(_G), _a, _k, _b) == T.centry(_G, _a, 0, _b) + T.rmul(sgnpow(_k), T.centry(_G, _a, T.d1(_G) - 1, _b))
                                     + 2 * dct1sum(_G, _a, _k, _b, T.d1(_G) - 1)), [T.centry(dct1(_G), _a, _k, _b)]),
    T.A([_G, _a, _k, _b], dct1sum(_G, _a, _k, _b, 1) == 0, [dct1sum(_G, _a, _k, _b, 1)]),
    T.A([_G, _a, _k, _b, _j, _k1], z3.Implies(z3.And(_j >= 1, _k1 == _j + 1),
                                              dct1sum(_G, _a, _k, _b, _k1)
                                              == dct1sum(_G, _a, _k, _b, _j) + T.rmul(T.centry(_G, _a, _j, _b), PT.cosf(dct_angle(_G, _k, _j)))),
        [z3.MultiPattern(dct1sum(_G, _a, _k, _b, _j), dct1sum(_G, _a, _k, _b, _k1))]),
    sgnpow(0) == 1,
    T.A([_k, _k1], z3.Implies(z3.And(_k >= 0, _k1 == _k + 1), sgnpow(_k1) == -sgnpow(_k)), [z3.MultiPattern(sgnpow(_k), sgnpow(_k1))]),
]
T.GROUPS['centsl'] = [
    T.A([_G, _a, _j, _b], T.centry(_G, _a, _j, _b) == T.ent(T.sl(_G, _j), _a, _b), [T.centry(_G, _a, _j, _b)]),
]


class OptCores(VSeq):
    """`[None] * n` that is filled with 3-D arrays by `A[k] = ...`: element k is None iff isn[k], otherwise the core arr[k]."""
    def __init__(self, arr, isn, n):
        super().__init__(arr, n, None, 'optcore')
        self.isn = isn

    def get(self, k):
        v = M.mk_core(self.arr[k])
        v.shared = True
        return VOpt(self.isn[k], v)

    def copy(self):
        return OptCores(self.arr, self.isn, self.n)


def fresh_optcores(ex, st, n=None, name='A'):
    if n is None:
        n = ex.fresh_int(name + '_len')
        st.assume(n >= 0)
    return OptCores(ex.fresh(name + '_arr', T.TT), ex.fresh(name + '_isnone', z3.ArraySort(I, z3.BoolSort())), n)


_orig_list_repeat = M.list_repeat


def list_repeat(ex, st, lst, n, node):
    if on(ex) and len(lst.items) == 1 and lst.items[0] is NONE and getattr(ex, 'none_list_holds_cores', False):
        used('[None] * n -> list of n None entries (to be filled with 3-D arrays)')
        return st.alloc(OptCores(ex.fresh('nonelist', T.TT), z3.K(I, z3.BoolVal(True)), Z(n)))
    return _orig_list_repeat(ex, st, lst, n, node)


M.list_repeat = list_repeat
_orig_store = M.store


def _core_term(ex, st, v, node):
    v = st.deref(v)
    if isinstance(v, VArr) and v.ndim == 3:
        if v.t is not None and v.tag == 'core':
            return v.t
        t = ex.fresh('core', T.Core)
        st.assume(T.d0(t) == Z(v.shape[0]), T.d1(t) == Z(v.shape[1]), T.d2(t) == Z(v.shape[2]))
        return t
    raise Unsupported('storing a non-3-D value into a list of optional cores')


def store(ex, st, base, sl_, v, node, base_node):
    b = st.deref(base)
    if isinstance(b, OptCores):
        i = ex.need_num(st, ex.ev(sl_, st), node)
        i = M.norm_index(ex, st, i, b.n, node, 'list-index')
        used('list[i] = x -> store (requires index in range)')
        newarr = ex.fresh('upd', T.TT)
        st.assume(newarr == z3.Store(b.arr, Z(i), _core_term(ex, st, v, node)))
        b.arr, b.isn = newarr, z3.Store(b.isn, Z(i), z3.BoolVal(False))
        return
    return _orig_store(ex, st, base, sl_, v, node, base_node)


M.store = store
_orig_setitem = M.arr_setitem


def _full(e):
    return isinstance(e, ast.Slice) and e.lower is None and e.upper is None and e.step is None


def arr_setitem(ex, st, b, sl_, v, node):
    if on(ex) and isinstance(sl_, ast.Tuple) and len(sl_.elts) == 3 and _full(sl_.elts[0]) and _full(sl_.elts[2]) \
            and not isinstance(sl_.elts[1], ast.Slice):
        if isinstance(b, VOpt) and isinstance(st.deref(b.val), VArr):
            ex.oblige(st, 'safety', 'subscripted-value-not-None', z3.Not(b.isnone), node)
            b = st.deref(b.val)
        val = st.deref(v)
        if isinstance(b, VArr) and b.ndim == 3 and b.tag == 'core' and b.t is not None and isinstance(val, VArr) and val.ndim == 2 \
                and val.tag == 'mat' and val.t is not None:
            j = M.norm_index(ex, st, ex.need_num(st, ex.ev(sl_.elts[1], st), node), b.shape[1], node, 'mode-index')
            used('G[:, j, :] = M -> cslset(G, j, M): the mode slice j is replaced (requires the shape of a slice)')
            ex.oblige(st, 'call-pre', 'slice-assignment-shape-matches', z3.And(Z(val.shape[0]) == Z(b.shape[0]), Z(val.shape[1]) == Z(b.shape[2])), node)
            return VArr(b.shape, cslset(b.t, Z(j), val.t), 'core')
    return _orig_setitem(ex, st, b, sl_, v, node)


M.arr_setitem = arr_setitem


@model('scipy.fftpack.dct')
def m_dct(ex, st, args, kwargs, node):
    Gv = st.deref(args[0]) if args else None
    ty = args[1] if len(args) > 1 else kwargs.get('type', 2)
    if not on(ex) or len(args) > 2 or set(kwargs) - {'type', 'axis'} or not (isinstance(ty, int) and ty == 1) or kwargs.get('axis', -1) != 1 \
            or not (isinstance(Gv, VArr) and Gv.ndim == 3 and Gv.tag == 'core' and Gv.t is not None):
        raise Unsupported('scipy.fftpack.dct: only dct(<3-D array>, 1, axis=1) is modelled')
    used('scipy.fftpack.dct(G, 1, axis=1) -> dct1(G): un-normalised DCT-I of every mode fibre, y_k = x_0 + (-1)^k x_{n-1} + '
         '2 sum_{0<i<n-1} x_i cos(pi k i / (n-1)); same shape; requires n >= 2 (otherwise scipy raises)')
    ex.oblige(st, 'call-pre', 'dct-type-1-needs-at-least-two-points', Z(Gv.shape[1]) >= 2, node)
    return VArr(Gv.shape, dct1(Gv.t), 'core')


# ----------------------------------------------------------------------------------------------
# func_sum:  n_max = max(n);  p = 2. / (1 - np.arange(0, n_max, 2)**2);  v = np.array([[1.]]);
#            for ak, bk, y, nk in zip(a, b, A, n):  v = v @ (p[:(nk + 1)//2] @ y[:, ::2]);  v *= (bk - ak) / 2.
#
# theory: every second mode slice, squares of integers (in the product abstraction mulI), the Clenshaw-Curtis chain

cstep2 = z3.Function('cstep2', T.Core, T.Core)
ccchain = z3.Function('ccchain', T.TT, RA, RA, RA, I, T.Mat)
_av, _bv, _wv = z3.Const('a!fv', RA), z3.Const('b!fv', RA), z3.Const('w!fv', RA)


T.GROUPS['cstep2'] = [
    T.A([_G], z3.And(T.d0(cstep2(_G)) == T.d0(_G), T.d1(cstep2(_G)) == (T.d1(_G) + 1) / 2, T.d2(cstep2(_G)) == T.d2(_G)), [cstep2(_G)]),
    T.A([_G, _k], z3.Implies(z3.And(0 <= _k, 2 * _k < T.d1(_G)), T.sl(cstep2(_G), _k) == T.sl(_G, 2 * _k)), [T.sl(cstep2(_G), _k)]),
]
T.GROUPS['isq'] = [
    T.A([_k], z3.And(T.mulI(_k, _k) >= 0, z3.Implies(T.mulI(_k, _k) == 1, z3.Or(_k == 1, _k == -1)), z3.Implies(T.mulI(_k, _k) == 0, _k == 0)),
        [T.mulI(_k, _k)]),
]
T.GROUPS['ccchain'] = [
    T.A([T.Y_, _av, _bv, _wv], ccchain(T.Y_, _av, _bv, _wv, 0) == T.sc(1), [ccchain(T.Y_, _av, _bv, _wv, 0)]),
    T.A([T.Y_, _av, _bv, _wv, _k, _k1], z3.Implies(z3.And(_k >= 0, _k1 == _k + 1),
                                                   ccchain(T.Y_, _av, _bv, _wv, _k1)
                                                   == T.smul((_bv[_k] - _av[_k]) / 2, T.mm(ccchain(T.Y_, _av, _bv, _wv, _k), T.wsum(cstep2(T.Y_[_k]), _wv)))),
        [z3.MultiPattern(ccchain(T.Y_, _av, _bv, _wv, _k), ccchain(T.Y_, _av, _bv, _wv, _k1))]),
]

_orig_max = M.FUNCS['max']


@model('max')
def m_max_vec(ex, st, args, kwargs, node):
    v = st.deref(args[0]) if len(args) == 1 else None
    if on(ex) and not kwargs and is_vec(v, 'ivec'):
        used('max(v) of a 1-D integer array -> an element of v that no element exceeds (requires a non-empty array)')
        n = Z(v.shape[0])
        ex.oblige(st, 'call-pre', 'max-of-a-non-empty-sequence', n >= 1, node)
        mx, w = ex.fresh_int('max'), ex.fresh_int('argmax')
        st.assume(0 <= w, w < n, v.t[w] == mx, z3.ForAll([_k], z3.Implies(z3.And(0 <= _k, _k < n), v.t[_k] <= mx), patterns=[v.t[_k]]))
        st.ghost.setdefault('max_calls', []).append((v, mx))
        return mx
    return _orig_max(ex, st, args, kwargs, node)


_orig_arange = M.FUNCS['np.arange']


@model('np.arange')
def m_arange_step(ex, st, args, kwargs, node):
    if on(ex) and len(args) == 3 and not kwargs:
        lo, hi, stp = [ex.need_num(st, a, node) for a in args]
        if is_intsort(lo) and is_intsort(hi) and isinstance(stp, int) and not isinstance(stp, bool) and stp >= 1:
            used('np.arange(lo, hi, step) for integers, step >= 1 -> the vector lo, lo + step, ... below hi; length ceil((hi - lo) / step)')
            lo, hi = Z(lo), Z(hi)
            n = z3.simplify(z3.If(hi > lo, (hi - lo + (stp - 1)) / stp, 0))
            arr = ex.fresh('arange', IA)
            st.assume(z3.ForAll([_k], arr[_k] == lo + stp * _k, patterns=[arr[_k]]))
            return ivec(n, arr)
    return _orig_arange(ex, st, args, kwargs, node)


_orig_binop = M.arr_binop


def arr_binop(ex, st, op, l, r, node):
    if on(ex):
        if isinstance(op, ast.Pow) and is_vec(l, 'ivec') and isinstance(r, int) and not isinstance(r, bool) and r == 2:
            used('v ** 2 for an integer vector -> elementwise square (product abstraction mulI)')
            arr = ex.fresh('isq', IA)
            st.assume(z3.ForAll([_k], arr[_k] == T.mulI(l.t[_k], l.t[_k]), patterns=[arr[_k]]))
            return ivec(l.shape[0], arr)
        if isinstance(op, ast.Sub) and is_vec(r, 'ivec') and not isinstance(l, VArr) and is_num(l) and is_intsort(l):
            used('c - v for an integer c and an integer vector v -> elementwise')
            arr = ex.fresh('idiff', IA)
            st.assume(z3.ForAll([_k], arr[_k] == Z(l) - r.t[_k], patterns=[arr[_k]]))
            return ivec(r.shape[0], arr)
        if isinstance(op, ast.Div) and is_vec(r, 'ivec') and not isinstance(l, VArr) and is_num(l):
            used('c / v for a number c and an integer vector v -> elementwise true division; every element of v must be non-zero')
            n = Z(r.shape[0])
            ex.oblige(st, 'safety', 'elementwise-division-by-nonzero', z3.ForAll([_k], z3.Implies(z3.And(0 <= _k, _k < n), r.t[_k] != 0)), node)
            arr = ex.fresh('quot', RA)
            st.assume(z3.ForAll([_k], arr[_k] == to_real(l) / z3.ToReal(r.t[_k]), patterns=[arr[_k]]))
            return rvec(r.shape[0], arr)
    return _orig_binop(ex, st, op, l, r, node)


M.arr_binop = arr_binop
def _wrap_array(name):
    orig = M.FUNCS[name]

    def m_array_1x1(ex, st, args, kwargs, node):
        v = st.deref(args[0]) if args else None
        if on(ex) and len(args) == 1 and not kwargs and isinstance(v, VList) and len(v.items) == 1:
            w = st.deref(v.items[0])
            if isinstance(w, VList) and len(w.items) == 1 and is_num(w.items[0]) and not is_intsort(w.items[0]):
                used('np.array([[x]]) for a float x -> the 1 x 1 matrix [[x]] (sc(x))')
                return VArr((1, 1), T.sc(to_real(w.items[0])), 'mat')
        return orig(ex, st, args, kwargs, node)
    M.FUNCS[name] = m_array_1x1


for _nm in ('np.array', 'np.asanyarray', 'np.asarray'):
    _wrap_array(_nm)


_orig_iter_of_value = M._iter_of_value


def _iter_of_value(ex, st, v, node):
    w = st.deref(v)
    if on(ex) and is_vec(w, 'rvec'):
        used('iteration over a 1-D float array -> its elements in order')
        return Z(w.shape[0]), (lambda j, w=w: w.t[j]), False
    return _orig_iter_of_value(ex, st, v, node)


M._iter_of_value = _iter_of_value
_orig_index = M.arr_index


def arr_index(ex, st, a, sl_, node):
    if on(ex) and isinstance(a, VArr) and a.ndim == 3 and a.tag == 'core' and a.t is not None and isinstance(sl_, ast.Tuple) and len(sl_.elts) == 2:
        e0, e1 = sl_.elts
        if _full(e0) and isinstance(e1, ast.Slice) and e1.lower is None and e1.upper is None and e1.step is not None:
            stp = ex.ev(e1.step, st)
            if isinstance(stp, int) and not isinstance(stp, bool) and stp == 2:
                used('G[:, ::2] -> cstep2(G): the mode slices 0, 2, 4, ...; (n + 1) // 2 of them')
                return VArr((a.shape[0], (Z(a.shape[1]) + 1) / 2, a.shape[2]), cstep2(a.t), 'core')
    return _orig_index(ex, st, a, sl_, node)


M.arr_index = arr_index
_orig_matmul = M.matmul


def matmul(ex, st, l, r, node):
    if on(ex) and is_vec(l, 'rvec') and isinstance(r, VArr) and r.ndim == 3 and r.tag == 'core' and r.t is not None:
        used('p @ G for a 1-D p and a 3-D G -> sum_m p[m] * G[:, m, :] (wsum); requires len(p) = n(G)')
        ex.oblige(st, 'call-pre', 'matmul-inner-dims-agree', Z(l.shape[0]) == Z(r.shape[1]), node)
        return VArr((r.shape[0], r.shape[2]), T.wsum(r.t, l.t), 'mat')
    return _orig_matmul(ex, st, l, r, node)


M.matmul = matmul
