"""Model-table entries and spec symbols for the functional (Chebyshev) TT routines of teneva/func.py (contracts/func_more.py; C12, C11).

Everything follows the wrapping pattern of kr.py (keep the previous hook, fall through to it) and is ACTIVE ONLY for executors that
carry the flag `ex.functt = True`, so that the units of the other contract files see exactly the engine they were written against.

New theory symbols (every group is exercised by lemmas/spotcheck.py through lemmas/spotcheck_ext_func.py):
  cheb(k, x)                 T_k(x) by the three-term recurrence (same declaration as in contracts/func.py)            group 'cheb'
  cmode(G, M)                np.einsum('riq,ij->rjq', G, M): mode product of a core with a matrix                      group 'cmode'
  modesum(G, M, a, j, b, k)  sum_{i<k} G[a, i, b] * M[i, j]      (the defining finite sum of cmode)                    group 'cmode'
  chebsum(G, x, a, b, k)     sum_{i<k} G[a, i, b] * T_i(x)       (spec function of func_gets / func_get)               group 'chebsum'
  cslset(G, j, M)            G with the mode slice G[:, j, :] replaced by M                                            group 'cslset'
  dct1(G)                    scipy.fftpack.dct(G, 1, axis=1)  (un-normalised DCT-I along the mode axis)                group 'dct1'
  dct1sum(G, a, k, b, j)     sum_{1<=i<j} G[a, i, b] * cos(pi k i / (n-1)),  sgnpow(k) = (-1)^k                        group 'dct1'
  cstep2(G)                  G[:, ::2]  (every second mode slice)                                                      group 'cstep2'
  ccchain(Y, a, b, w, k)     prod_{t<k} (b_t-a_t)/2 * wsum(cstep2(Y[t]), w)  (spec function of func_sum)               group 'ccchain'
"""
import ast
import z3
from ttvc import symex
from ttvc.symex import (Unsupported, ContractMismatch, NONE, VStr, VOpt, VTuple, VRef, VList, VSeq, VArr, VFunc, VOpaque, Z, is_num,
                        is_intsort)
from ttvc import models as M, theory as T, vec as V, pt as PT
from ttvc.models import model, used, to_real

I, R = z3.IntSort(), z3.RealSort()
IA = z3.ArraySort(I, I)
RA = z3.ArraySort(I, R)
MA = z3.ArraySort(I, T.Mat)


def on(ex):
    return getattr(ex, 'functt', False)


# ----------------------------------------------------------------------------------------------
# theory

cheb = z3.Function('cheb', I, R, R)
cmode = z3.Function('cmode', T.Core, T.Mat, T.Core)
modesum = z3.Function('modesum', T.Core, T.Mat, I, I, I, I, R)
chebsum = z3.Function('chebsum', T.Core, R, I, I, I, R)

_k, _k1, _k2, _a, _b, _j = z3.Ints('k!f k1!f k2!f a!f b!f j!f')
_x = z3.Real('x!f')
_G, _M = T.G_, T.a_

T.GROUPS['cheb'] = [
    T.A([_x], z3.And(cheb(0, _x) == 1, cheb(1, _x) == _x), [cheb(0, _x), cheb(1, _x)]),
    T.A([_k, _k1, _k2, _x], z3.Implies(z3.And(_k >= 0, _k1 == _k + 1, _k2 == _k + 2), cheb(_k2, _x) == 2 * _x * cheb(_k1, _x) - cheb(_k, _x)),
        [z3.MultiPattern(cheb(_k, _x), cheb(_k1, _x), cheb(_k2, _x))]),
]
T.GROUPS['cmode'] = [
    T.A([_G, _M], z3.And(T.d0(cmode(_G, _M)) == T.d0(_G), T.d1(cmode(_G, _M)) == T.cols(_M), T.d2(cmode(_G, _M)) == T.d2(_G)), [cmode(_G, _M)]),
    T.A([_G, _M, _a, _j, _b], z3.Implies(T.rows(_M) == T.d1(_G), T.centry(cmode(_G, _M), _a, _j, _b) == modesum(_G, _M, _a, _j, _b, T.d1(_G))),
        [T.centry(cmode(_G, _M), _a, _j, _b)]),
    T.A([_G, _M, _a, _j, _b], modesum(_G, _M, _a, _j, _b, 0) == 0, [modesum(_G, _M, _a, _j, _b, 0)]),
    T.A([_G, _M, _a, _j, _b, _k, _k1], z3.Implies(z3.And(_k >= 0, _k1 == _k + 1),
                                                  modesum(_G, _M, _a, _j, _b, _k1)
                                                  == modesum(_G, _M, _a, _j, _b, _k) + T.rmul(T.centry(_G, _a, _k, _b), T.ent(_M, _k, _j))),
        [z3.MultiPattern(modesum(_G, _M, _a, _j, _b, _k), modesum(_G, _M, _a, _j, _b, _k1))]),
]
T.GROUPS['chebsum'] = [
    T.A([_G, _x, _a, _b], chebsum(_G, _x, _a, _b, 0) == 0, [chebsum(_G, _x, _a, _b, 0)]),
    T.A([_G, _x, _a, _b, _k, _k1], z3.Implies(z3.And(_k >= 0, _k1 == _k + 1),
                                              chebsum(_G, _x, _a, _b, _k1) == chebsum(_G, _x, _a, _b, _k) + T.rmul(T.centry(_G, _a, _k, _b), cheb(_k, _x))),
        [z3.MultiPattern(chebsum(_G, _x, _a, _b, _k), chebsum(_G, _x, _a, _b, _k1))]),
]


# ----------------------------------------------------------------------------------------------
# column views of vectors:  np.arange(m).reshape((-1, 1))  and  X.reshape(-1)
#
# 'icol' / 'rcol': a 2-D array of shape (n, 1) whose entry [j, 0] is t[j] (t: z3 array Int -> Int / Real)

def is_vec(v, tag):
    return isinstance(v, VArr) and v.ndim == 1 and v.tag == tag and v.t is not None and not callable(v.t) and z3.is_array(v.t)


def rvec(n, arr):
    return V.RVec(n, arr)


def ivec(n, arr):
    return VArr((n,), arr, 'ivec', 'i')


def _is_m1(x):
    return isinstance(x, int) and not isinstance(x, bool) and x == -1


def _is_1(x):
    return isinstance(x, int) and not isinstance(x, bool) and x == 1


_orig_reshape = M.reshape


def reshape(ex, st, a, shp, order, node):
    if on(ex) and isinstance(a, VArr):
        try:
            dims = M.shape_arg(ex, st, shp, node)
        except Unsupported:
            dims = None
        if dims is not None and len(dims) == 2 and _is_m1(dims[0]) and _is_1(dims[1]) and (is_vec(a, 'ivec') or is_vec(a, 'rvec')):
            used('v.reshape((-1, 1)) of a vector -> the (n, 1) column with the same entries')
            return VArr((a.shape[0], 1), a.t, 'icol' if a.tag == 'ivec' else 'rcol', a.dtype)
        if dims is not None and len(dims) == 1 and _is_m1(dims[0]) and a.ndim == 2 and a.tag in ('icol', 'rcol'):
            used('C.reshape(-1) of an (n, 1) column -> the vector with the same entries')
            return ivec(a.shape[0], a.t) if a.tag == 'icol' else rvec(a.shape[0], a.t)
    return _orig_reshape(ex, st, a, shp, order, node)


M.reshape = reshape


# ----------------------------------------------------------------------------------------------
# np.einsum('riq,ij->rjq', G, M): mode product

_orig_einsum = M.FUNCS['np.einsum']


@model('np.einsum')
def m_einsum_func(ex, st, args, kwargs, node):
    sub = args[0].concrete() if args and isinstance(args[0], VStr) else None
    key = (sub or '').replace(' ', '')
    if on(ex) and key == 'riq,ij->rjq' and len(args) == 3 and not kwargs:
        G, Mx = st.deref(args[1]), st.deref(args[2])
        if isinstance(G, VArr) and G.ndim == 3 and G.tag == 'core' and G.t is not None and isinstance(Mx, VArr) and Mx.ndim == 2 \
                and Mx.tag == 'mat' and Mx.t is not None:
            used("np.einsum('riq,ij->rjq', G, M) -> cmode(G, M): entry [r, j, q] = sum_i G[r, i, q] * M[i, j]; requires n(G) = rows(M)")
            ex.oblige(st, 'call-pre', 'einsum-contracted-dimensions-agree', Z(G.shape[1]) == Z(Mx.shape[0]), node)
            return VArr((G.shape[0], Mx.shape[1], G.shape[2]), cmode(G.t, Mx.t), 'core')
    return _orig_einsum(ex, st, args, kwargs, node)


# ----------------------------------------------------------------------------------------------
# `kind in ['cheb', 'sin']` (assert statements under ex.asserts = True)

_orig_contains = M.contains


def contains(ex, st, l, r, neg, node):
    if on(ex) and isinstance(l, VStr) and isinstance(r, (VList, VTuple)) and all(isinstance(x, VStr) for x in r.items):
        c = z3.Or([l.code == x.code for x in r.items]) if r.items else z3.BoolVal(False)
        return z3.Not(c) if neg else c
    return _orig_contains(ex, st, l, r, neg, node)


M.contains = contains


# ----------------------------------------------------------------------------------------------
# func_int:  A = [None] * len(Y);  A[k] = dct(y, 1, axis=1) / (n - 1);  A[k][:, 0, :] /= 2.;  A[k][:, -1, :] /= 2.
#
# theory: slice replacement, the DCT-I operator with its defining sum, entries of a core through its slices

cslset = z3.Function('cslset', T.Core, I, T.Mat, T.Core)
dct1 = z3.Function('dct1', T.Core, T.Core)
dct1sum = z3.Function('dct1sum', T.Core, I, I, I, I, R)
sgnpow = z3.Function('sgnpow', I, R)


def dct_angle(G, k, i):
    """pi * k * i / (n - 1) for the mode size n of G (the product of the two indices in the engine's product abstraction mulI)."""
    return M.PI * (z3.ToReal(T.mulI(k, i)) / z3.ToReal(T.d1(G) - 1))


T.GROUPS['cslset'] = [
    T.A([_G, _j, _M], z3.And(T.d0(cslset(_G, _j, _M)) == T.d0(_G), T.d1(cslset(_G, _j, _M)) == T.d1(_G), T.d2(cslset(_G, _j, _M)) == T.d2(_G)),
        [cslset(_G, _j, _M)]),
    T.A([_G, _j, _M, _k], z3.Implies(z3.And(T.rows(_M) == T.d0(_G), T.cols(_M) == T.d2(_G), 0 <= _j, _j < T.d1(_G), 0 <= _k, _k < T.d1(_G)),
                                     T.sl(cslset(_G, _j, _M), _k) == z3.If(_k == _j, _M, T.sl(_G, _k))), [T.sl(cslset(_G, _j, _M), _k)]),
]
T.GROUPS['dct1'] = [
    T.A([_G], z3.And(T.d0(dct1(_G)) == T.d0(_G), T.d1(dct1(_G)) == T.d1(_G), T.d2(dct1(_G)) == T.d2(_G)), [dct1(_G)]),
    T.A([_G, _a, _k, _b], z3.Implies(z3.And(T.d1(_G) >= 2, 0 <= _k, _k < T.d1(_G)),
                                     T.centry(dct1(_G), _a, _k, _b) == T.centry(_G, _a, 0, _b) + T.rmul(sgnpow(_k), T.centry(_G, _a, T.d1(_G) - 1, _b))
                                     + 2 * dct1sum(_G, _a, _k, _b, T.d1(_G) - 1)), [T.centry(dct1(_G), _a, _k, _b)]),
    T.A([_G, _a, _k, _b], dct1sum(_G, _a, _k, _b, 1) == 0, [dct1sum(_G, _a, _k, _b, 1)]),
    T.A([_G, _a, _k, _b, _j, _k1], z3.Implies(z3.And(_j >= 1, _k1 == _j + 1),
                                              dct1sum(_G, _a, _k, _b, _k1)
                                              == dct1sum(_G, _a, _k, _b, _j) + T.rmul(T.centry(_G, _a, _j, _b), PT.cosf(dct_angle(_G, _k, _j)))),
        [z3.MultiPattern(dct1sum(_G, _a, _k, _b, _j), dct1sum(_G, _a, _k, _b, _k1))]),
    sgnpow(0) == 1,
    T.A([_k, _k1], z3.Implies(z3.And(_k >= 0, _k1 == _k + 1), sgnpow(_k1) == -sgnpow(_k)), [z3.MultiPattern(sgnpow(_k), sgnpow(_k1))]),
]
T.GROUPS['centsl'] = [
    T.A([_G, _a, _j, _b], T.centry(_G, _a, _j, _b) == T.ent(T.sl(_G, _j), _a, _b), [T.centry(_G, _a, _j, _b)]),
]


class OptCores(VSeq):
    """`[None] * n` that is filled with 3-D arrays by `A[k] = ...`: element k is None iff isn[k], otherwise the core arr[k]."""
    def __init__(self, arr, isn, n):
        super().__init__(arr, n, None, 'optcore')
        self.isn = isn

    def get(self, k):
        v = M.mk_core(self.arr[k])
        v.shared = True
        return VOpt(self.isn[k], v)

    def copy(self):
        return OptCores(self.arr, self.isn, self.n)


def fresh_optcores(ex, st, n=None, name='A'):
    if n is None:
        n = ex.fresh_int(name + '_len')
        st.assume(n >= 0)
    return OptCores(ex.fresh(name + '_arr', T.TT), ex.fresh(name + '_isnone', z3.ArraySort(I, z3.BoolSort())), n)


_orig_list_repeat = M.list_repeat


def list_repeat(ex, st, lst, n, node):
    if on(ex) and len(lst.items) == 1 and lst.items[0] is NONE and getattr(ex, 'none_list_holds_cores', False):
        used('[None] * n -> list of n None entries (to be filled with 3-D arrays)')
        return st.alloc(OptCores(ex.fresh('nonelist', T.TT), z3.K(I, z3.BoolVal(True)), Z(n)))
    return _orig_list_repeat(ex, st, lst, n, node)


M.list_repeat = list_repeat
_orig_store = M.store


def _core_term(ex, st, v, node):
    v = st.deref(v)
    if isinstance(v, VArr) and v.ndim == 3:
        if v.t is not None and v.tag == 'core':
            return v.t
        t = ex.fresh('core', T.Core)
        st.assume(T.d0(t) == Z(v.shape[0]), T.d1(t) == Z(v.shape[1]), T.d2(t) == Z(v.shape[2]))
        return t
    raise Unsupported('storing a non-3-D value into a list of optional cores')


def store(ex, st, base, sl_, v, node, base_node):
    b = st.deref(base)
    if isinstance(b, OptCores):
        i = ex.need_num(st, ex.ev(sl_, st), node)
        i = M.norm_index(ex, st, i, b.n, node, 'list-index')
        used('list[i] = x -> store (requires index in range)')
        newarr = ex.fresh('upd', T.TT)
        st.assume(newarr == z3.Store(b.arr, Z(i), _core_term(ex, st, v, node)))
        b.arr, b.isn = newarr, z3.Store(b.isn, Z(i), z3.BoolVal(False))
        return
    return _orig_store(ex, st, base, sl_, v, node, base_node)


M.store = store
_orig_setitem = M.arr_setitem


def _full(e):
    return isinstance(e, ast.Slice) and e.lower is None and e.upper is None and e.step is None


def arr_setitem(ex, st, b, sl_, v, node):
    if on(ex) and isinstance(sl_, ast.Tuple) and len(sl_.elts) == 3 and _full(sl_.elts[0]) and _full(sl_.elts[2]) \
            and not isinstance(sl_.elts[1], ast.Slice):
        if isinstance(b, VOpt) and isinstance(st.deref(b.val), VArr):
            ex.oblige(st, 'safety', 'subscripted-value-not-None', z3.Not(b.isnone), node)
            b = st.deref(b.val)
        val = st.deref(v)
        if isinstance(b, VArr) and b.ndim == 3 and b.tag == 'core' and b.t is not None and isinstance(val, VArr) and val.ndim == 2 \
                and val.tag == 'mat' and val.t is not None:
            j = M.norm_index(ex, st, ex.need_num(st, ex.ev(sl_.elts[1], st), node), b.shape[1], node, 'mode-index')
            used('G[:, j, :] = M -> cslset(G, j, M): the mode slice j is replaced (requires the shape of a slice)')
            ex.oblige(st, 'call-pre', 'slice-assignment-shape-matches', z3.And(Z(val.shape[0]) == Z(b.shape[0]), Z(val.shape[1]) == Z(b.shape[2])), node)
            return VArr(b.shape, cslset(b.t, Z(j), val.t), 'core')
    return _orig_setitem(ex, st, b, sl_, v, node)


M.arr_setitem = arr_setitem


@model('scipy.fftpack.dct')
def m_dct(ex, st, args, kwargs, node):
    Gv = st.deref(args[0]) if args else None
    ty = args[1] if len(args) > 1 else kwargs.get('type', 2)
    if not on(ex) or len(args) > 2 or set(kwargs) - {'type', 'axis'} or not (isinstance(ty, int) and ty == 1) or kwargs.get('axis', -1) != 1 \
            or not (isinstance(Gv, VArr) and Gv.ndim == 3 and Gv.tag == 'core' and Gv.t is not None):
        raise Unsupported('scipy.fftpack.dct: only dct(<3-D array>, 1, axis=1) is modelled')
    used('scipy.fftpack.dct(G, 1, axis=1) -> dct1(G): un-normalised DCT-I of every mode fibre, y_k = x_0 + (-1)^k x_{n-1} + '
         '2 sum_{0<i<n-1} x_i cos(pi k i / (n-1)); same shape; requires n >= 2 (otherwise scipy raises)')
    ex.oblige(st, 'call-pre', 'dct-type-1-needs-at-least-two-points', Z(Gv.shape[1]) >= 2, node)
    return VArr(Gv.shape, dct1(Gv.t), 'core')
