"""Model-table entries and spec symbols for the functional (Chebyshev) TT routines of teneva/func.py (contracts/func_more.py; C12, C11).

Everything follows the wrapping pattern of kr.py (keep the previous hook, fall through to it) and is ACTIVE ONLY for executors that
carry the flag `ex.functt = True` (sub-flags: `ex.none_list_holds_cores` for `[None] * n` lists that are filled with cores,
`ex.functt_shapes` for the shape tier of func_diff_matrix, `ex.functt_lsq` for func_int_general), so that the units of the other
contract files see exactly the engine they were written against.

New theory symbols (every group is exercised by lemmas/spotcheck.py through lemmas/spotcheck_ext_func.py):
  cheb(k, x)                 T_k(x) by the three-term recurrence (same declaration as in contracts/func.py)            group 'cheb'
  cmode(G, M)                np.einsum('riq,ij->rjq', G, M): mode product of a core with a matrix                      group 'cmode'
  modesum(G, M, a, j, b, k)  sum_{i<k} G[a, i, b] * M[i, j]      (the defining finite sum of cmode)                    group 'cmode'
  chebsum(G, x, a, b, k)     sum_{i<k} G[a, i, b] * T_i(x)       (spec function of func_gets)                          group 'chebsum'
  cslset(G, j, M)            G with the mode slice G[:, j, :] replaced by M                                            group 'cslset'
  dct1(G)                    scipy.fftpack.dct(G, 1, axis=1)  (un-normalised DCT-I along the mode axis)                group 'dct1'
  dct1sum(G, a, k, b, j)     sum_{1<=i<j} G[a, i, b] * cos(pi k i / (n-1)),  sgnpow(k) = (-1)^k                        group 'dct1'
  centry / sl link           G[a, j, b] = (G[:, j, :])[a, b]                                                           group 'centsl'
  cstep2(G)                  G[:, ::2]  (every second mode slice)                                                      group 'cstep2'
  mulI(k, k) facts           squares of integers in the product abstraction: >= 0, = 1 only for k = +-1, = 0 only for 0 group 'isq'
  ccchain(Y, a, b, w, k)     prod_{t<k} (b_t-a_t)/2 * wsum(cstep2(Y[t]), w)  (spec function of func_sum)               group 'ccchain'
  mrow(M, i), pcol(X, k), bsel(T, s)   rows of matrices / columns of point batches as vectors, weights of one sample   group 'mrow'
  chebscale(x, a, b)         the map of poi_scale(., a, b, 'cheb'), abstract inside e-matching proofs                   group 'chebscale'
  entries of tr / lcols / row                                                                                          group 'entsub'
  munf(G), mfold(M, r1, r2), lsqsol(H, M)   mode unfolding, its inverse, scipy.linalg.lstsq(H, M)[0] (shapes only)      group 'lsqsol'

Engine extensions (all gated): closures (`lambda` with captured values), lists of closures / of matrices built by comprehensions
(per-element intermediate values become functions of the position), `try / except TypeError`, `[x] * n` for arrays, `[None] * n` lists
filled with cores, batches of points (2-D float arrays with a denotation), `max` / `np.max` of vectors, stepped `np.arange`.
"""
import ast
import z3
from ttvc import symex
from ttvc.symex import (Unsupported, ContractMismatch, NONE, VStr, VOpt, VTuple, VRef, VList, VSeq, VArr, VFunc, VOpaque, Z, is_num,
                        is_intsort)
from ttvc import models as M, theory as T, vec as V, pt as PT
from ttvc.models import model, used, to_real

I, R = z3.IntSort(), z3.RealSort()
IA = z3.ArraySort(I, I)
RA = z3.ArraySort(I, R)
MA = z3.ArraySort(I, T.Mat)


def on(ex):
    return getattr(ex, 'functt', False)


# ----------------------------------------------------------------------------------------------
# theory

cheb = z3.Function('cheb', I, R, R)
cmode = z3.Function('cmode', T.Core, T.Mat, T.Core)
modesum = z3.Function('modesum', T.Core, T.Mat, I, I, I, I, R)
chebsum = z3.Function('chebsum', T.Core, R, I, I, I, R)

_k, _k1, _k2, _a, _b, _j = z3.Ints('k!f k1!f k2!f a!f b!f j!f')
_x = z3.Real('x!f')
_G, _M = T.G_, T.a_

T.GROUPS['cheb'] = [
    T.A([_x], z3.And(cheb(0, _x) == 1, cheb(1, _x) == _x), [cheb(0, _x), cheb(1, _x)]),
    T.A([_k, _k1, _k2, _x], z3.Implies(z3.And(_k >= 0, _k1 == _k + 1, _k2 == _k + 2), cheb(_k2, _x) == 2 * _x * cheb(_k1, _x) - cheb(_k, _x)),
        [z3.MultiPattern(cheb(_k, _x), cheb(_k1, _x), cheb(_k2, _x))]),
]
T.GROUPS['cmode'] = [
    T.A([_G, _M], z3.And(T.d0(cmode(_G, _M)) == T.d0(_G), T.d1(cmode(_G, _M)) == T.cols(_M), T.d2(cmode(_G, _M)) == T.d2(_G)), [cmode(_G, _M)]),
    T.A([_G, _M, _a, _j, _b], z3.Implies(T.rows(_M) == T.d1(_G), T.centry(cmode(_G, _M), _a, _j, _b) == modesum(_G, _M, _a, _j, _b, T.d1(_G))),
        [T.centry(cmode(_G, _M), _a, _j, _b)]),
    T.A([_G, _M, _a, _j, _b], modesum(_G, _M, _a, _j, _b, 0) == 0, [modesum(_G, _M, _a, _j, _b, 0)]),
    T.A([_G, _M, _a, _j, _b, _k, _k1], z3.Implies(z3.And(_k >= 0, _k1 == _k + 1),
                                                  modesum(_G, _M, _a, _j, _b, _k1)
                                                  == modesum(_G, _M, _a, _j, _b, _k) + T.rmul(T.centry(_G, _a, _k, _b), T.ent(_M, _k, _j))),
        [z3.MultiPattern(modesum(_G, _M, _a, _j, _b, _k), modesum(_G, _M, _a, _j, _b, _k1))]),
]
T.GROUPS['chebsum'] = [
    T.A([_G, _x, _a, _b], chebsum(_G, _x, _a, _b, 0) == 0, [chebsum(_G, _x, _a, _b, 0)]),
    T.A([_G, _x, _a, _b, _k, _k1], z3.Implies(z3.And(_k >= 0, _k1 == _k + 1),
                                              chebsum(_G, _x, _a, _b, _k1) == chebsum(_G, _x, _a, _b, _k) + T.rmul(T.centry(_G, _a, _k, _b), cheb(_k, _x))),
        [z3.MultiPattern(chebsum(_G, _x, _a, _b, _k), chebsum(_G, _x, _a, _b, _k1))]),
]


# ----------------------------------------------------------------------------------------------
# column views of vectors:  np.arange(m).reshape((-1, 1))  and  X.reshape(-1)
#
# 'icol' / 'rcol': a 2-D array of shape (n, 1) whose entry [j, 0] is t[j] (t: z3 array Int -> Int / Real)

def is_vec(v, tag):
    return isinstance(v, VArr) and v.ndim == 1 and v.tag == tag and v.t is not None and not callable(v.t) and z3.is_array(v.t)


def rvec(n, arr):
    return V.RVec(n, arr)


def ivec(n, arr):
    return VArr((n,), arr, 'ivec', 'i')


def _is_m1(x):
    return isinstance(x, int) and not isinstance(x, bool) and x == -1


def _is_1(x):
    return isinstance(x, int) and not isinstance(x, bool) and x == 1


_orig_reshape = M.reshape


def reshape(ex, st, a, shp, order, node):
    if on(ex) and isinstance(a, VArr):
        try:
            dims = M.shape_arg(ex, st, shp, node)
        except Unsupported:
            dims = None
        if dims is not None and len(dims) == 2 and _is_m1(dims[0]) and _is_1(dims[1]) and (is_vec(a, 'ivec') or is_vec(a, 'rvec')):
            used('v.reshape((-1, 1)) of a vector -> the (n, 1) column with the same entries')
            return VArr((a.shape[0], 1), a.t, 'icol' if a.tag == 'ivec' else 'rcol', a.dtype)
        if dims is not None and len(dims) == 1 and _is_m1(dims[0]) and a.ndim == 2 and a.tag in ('icol', 'rcol'):
            used('C.reshape(-1) of an (n, 1) column -> the vector with the same entries')
            return ivec(a.shape[0], a.t) if a.tag == 'icol' else rvec(a.shape[0], a.t)
    return _orig_reshape(ex, st, a, shp, order, node)


M.reshape = reshape


# ----------------------------------------------------------------------------------------------
# np.einsum('riq,ij->rjq', G, M): mode product

_orig_einsum = M.FUNCS['np.einsum']


@model('np.einsum')
def m_einsum_func(ex, st, args, kwargs, node):
    sub = args[0].concrete() if args and isinstance(args[0], VStr) else None
    key = (sub or '').replace(' ', '')
    if on(ex) and key == 'riq,ij->rjq' and len(args) == 3 and not kwargs:
        G, Mx = st.deref(args[1]), st.deref(args[2])
        if isinstance(G, VArr) and G.ndim == 3 and G.tag == 'core' and G.t is not None and isinstance(Mx, VArr) and Mx.ndim == 2 \
                and Mx.tag == 'mat' and Mx.t is not None:
            used("np.einsum('riq,ij->rjq', G, M) -> cmode(G, M): entry [r, j, q] = sum_i G[r, i, q] * M[i, j]; requires n(G) = rows(M)")
            ex.oblige(st, 'call-pre', 'einsum-contracted-dimensions-agree', Z(G.shape[1]) == Z(Mx.shape[0]), node)
            return VArr((G.shape[0], Mx.shape[1], G.shape[2]), cmode(G.t, Mx.t), 'core')
    return _orig_einsum(ex, st, args, kwargs, node)


# ----------------------------------------------------------------------------------------------
# `kind in ['cheb', 'sin']` (assert statements under ex.asserts = True)

_orig_contains = M.contains


def contains(ex, st, l, r, neg, node):
    if on(ex) and isinstance(l, VStr) and isinstance(r, (VList, VTuple)) and all(isinstance(x, VStr) for x in r.items):
        c = z3.Or([l.code == x.code for x in r.items]) if r.items else z3.BoolVal(False)
        return z3.Not(c) if neg else c
    return _orig_contains(ex, st, l, r, neg, node)


M.contains = contains


# ----------------------------------------------------------------------------------------------
# func_int:  A = [None] * len(Y);  A[k] = dct(y, 1, axis=1) / (n - 1);  A[k][:, 0, :] /= 2.;  A[k][:, -1, :] /= 2.
#
# theory: slice replacement, the DCT-I operator with its defining sum, entries of a core through its slices

cslset = z3.Function('cslset', T.Core, I, T.Mat, T.Core)
dct1 = z3.Function('dct1', T.Core, T.Core)
dct1sum = z3.Function('dct1sum', T.Core, I, I, I, I, R)
sgnpow = z3.Function('sgnpow', I, R)


def dct_angle(G, k, i):
    """pi * k * i / (n - 1) for the mode size n of G (the product of the two indices in the engine's product abstraction mulI)."""
    return M.PI * (z3.ToReal(T.mulI(k, i)) / z3.ToReal(T.d1(G) - 1))


T.GROUPS['cslset'] = [
    T.A([_G, _j, _M], z3.And(T.d0(cslset(_G, _j, _M)) == T.d0(_G), T.d1(cslset(_G, _j, _M)) == T.d1(_G), T.d2(cslset(_G, _j, _M)) == T.d2(_G)),
        [cslset(_G, _j, _M)]),
    T.A([_G, _j, _M, _k], z3.Implies(z3.And(T.rows(_M) == T.d0(_G), T.cols(_M) == T.d2(_G), 0 <= _j, _j < T.d1(_G), 0 <= _k, _k < T.d1(_G)),
                                     T.sl(cslset(_G, _j, _M), _k) == z3.If(_k == _j, _M, T.sl(_G, _k))), [T.sl(cslset(_G, _j, _M), _k)]),
]
T.GROUPS['dct1'] = [
    T.A([_G], z3.And(T.d0(dct1(_G)) == T.d0(_G), T.d1(dct1(_G)) == T.d1(_G), T.d2(dct1(_G)) == T.d2(_G)), [dct1(_G)]),
    T.A([_G, _a, _k, _b], z3.Implies(z3.And(T.d1(_G) >= 2, 0 <= _k, _k < T.d1(_G)),
                                     T.centry(dct1(_G), _a, _k, _b) == T.centry(_G, _a, 0, _b) + T.rmul(sgnpow(_k), T.centry(_G, _a, T.d1(_G) - 1, _b))
                                     + 2 * dct1sum(_G, _a, _k, _b, T.d1(_G) - 1)), [T.centry(dct1(_G), _a, _k, _b)]),
    T.A([_G, _a, _k, _b], dct1sum(_G, _a, _k, _b, 1) == 0, [dct1sum(_G, _a, _k, _b, 1)]),
    T.A([_G, _a, _k, _b, _j, _k1], z3.Implies(z3.And(_j >= 1, _k1 == _j + 1),
                                              dct1sum(_G, _a, _k, _b, _k1)
                                              == dct1sum(_G, _a, _k, _b, _j) + T.rmul(T.centry(_G, _a, _j, _b), PT.cosf(dct_angle(_G, _k, _j)))),
        [z3.MultiPattern(dct1sum(_G, _a, _k, _b, _j), dct1sum(_G, _a, _k, _b, _k1))]),
    sgnpow(0) == 1,
    T.A([_k, _k1], z3.Implies(z3.And(_k >= 0, _k1 == _k + 1), sgnpow(_k1) == -sgnpow(_k)), [z3.MultiPattern(sgnpow(_k), sgnpow(_k1))]),
]
T.GROUPS['centsl'] = [
    T.A([_G, _a, _j, _b], T.centry(_G, _a, _j, _b) == T.ent(T.sl(_G, _j), _a, _b), [T.centry(_G, _a, _j, _b)]),
]


class OptCores(VSeq):
    """`[None] * n` that is filled with 3-D arrays by `A[k] = ...`: element k is None iff isn[k], otherwise the core arr[k]."""
    def __init__(self, arr, isn, n):
        super().__init__(arr, n, None, 'optcore')
        self.isn = isn

    def get(self, k):
        v = M.mk_core(self.arr[k])
        v.shared = True
        return VOpt(self.isn[k], v)

    def copy(self):
        return OptCores(self.arr, self.isn, self.n)


def fresh_optcores(ex, st, n=None, name='A'):
    if n is None:
        n = ex.fresh_int(name + '_len')
        st.assume(n >= 0)
    return OptCores(ex.fresh(name + '_arr', T.TT), ex.fresh(name + '_isnone', z3.ArraySort(I, z3.BoolSort())), n)


_orig_list_repeat = M.list_repeat


def list_repeat(ex, st, lst, n, node):
    if on(ex) and len(lst.items) == 1 and lst.items[0] is NONE and getattr(ex, 'none_list_holds_cores', False):
        used('[None] * n -> list of n None entries (to be filled with 3-D arrays)')
        return st.alloc(OptCores(ex.fresh('nonelist', T.TT), z3.K(I, z3.BoolVal(True)), Z(n)))
    return _orig_list_repeat(ex, st, lst, n, node)


M.list_repeat = list_repeat
_orig_store = M.store


def _core_term(ex, st, v, node):
    v = st.deref(v)
    if isinstance(v, VArr) and v.ndim == 3:
        if v.t is not None and v.tag == 'core':
            return v.t
        t = ex.fresh('core', T.Core)
        st.assume(T.d0(t) == Z(v.shape[0]), T.d1(t) == Z(v.shape[1]), T.d2(t) == Z(v.shape[2]))
        return t
    raise Unsupported('storing a non-3-D value into a list of optional cores')


def store(ex, st, base, sl_, v, node, base_node):
    b = st.deref(base)
    if isinstance(b, OptCores):
        i = ex.need_num(st, ex.ev(sl_, st), node)
        i = M.norm_index(ex, st, i, b.n, node, 'list-index')
        used('list[i] = x -> store (requires index in range)')
        newarr = ex.fresh('upd', T.TT)
        st.assume(newarr == z3.Store(b.arr, Z(i), _core_term(ex, st, v, node)))
        b.arr, b.isn = newarr, z3.Store(b.isn, Z(i), z3.BoolVal(False))
        return
    return _orig_store(ex, st, base, sl_, v, node, base_node)


M.store = store
_orig_setitem = M.arr_setitem


def _full(e):
    return isinstance(e, ast.Slice) and e.lower is None and e.upper is None and e.step is None


def arr_setitem(ex, st, b, sl_, v, node):
    if on(ex) and isinstance(sl_, ast.Tuple) and len(sl_.elts) == 3 and _full(sl_.elts[0]) and _full(sl_.elts[2]) \
            and not isinstance(sl_.elts[1], ast.Slice):
        if isinstance(b, VOpt) and isinstance(st.deref(b.val), VArr):
            ex.oblige(st, 'safety', 'subscripted-value-not-None', z3.Not(b.isnone), node)
            b = st.deref(b.val)
        val = st.deref(v)
        if isinstance(b, VArr) and b.ndim == 3 and b.tag == 'core' and b.t is not None and isinstance(val, VArr) and val.ndim == 2 \
                and val.tag == 'mat' and val.t is not None:
            j = M.norm_index(ex, st, ex.need_num(st, ex.ev(sl_.elts[1], st), node), b.shape[1], node, 'mode-index')
            used('G[:, j, :] = M -> cslset(G, j, M): the mode slice j is replaced (requires the shape of a slice)')
            ex.oblige(st, 'call-pre', 'slice-assignment-shape-matches', z3.And(Z(val.shape[0]) == Z(b.shape[0]), Z(val.shape[1]) == Z(b.shape[2])), node)
            return VArr(b.shape, cslset(b.t, Z(j), val.t), 'core')
    return _orig_setitem(ex, st, b, sl_, v, node)


M.arr_setitem = arr_setitem


@model('scipy.fftpack.dct')
def m_dct(ex, st, args, kwargs, node):
    Gv = st.deref(args[0]) if args else None
    ty = args[1] if len(args) > 1 else kwargs.get('type', 2)
    if not on(ex) or len(args) > 2 or set(kwargs) - {'type', 'axis'} or not (isinstance(ty, int) and ty == 1) or kwargs.get('axis', -1) != 1 \
            or not (isinstance(Gv, VArr) and Gv.ndim == 3 and Gv.tag == 'core' and Gv.t is not None):
        raise Unsupported('scipy.fftpack.dct: only dct(<3-D array>, 1, axis=1) is modelled')
    used('scipy.fftpack.dct(G, 1, axis=1) -> dct1(G): un-normalised DCT-I of every mode fibre, y_k = x_0 + (-1)^k x_{n-1} + '
         '2 sum_{0<i<n-1} x_i cos(pi k i / (n-1)); same shape; requires n >= 2 (otherwise scipy raises)')
    ex.oblige(st, 'call-pre', 'dct-type-1-needs-at-least-two-points', Z(Gv.shape[1]) >= 2, node)
    return VArr(Gv.shape, dct1(Gv.t), 'core')


# ----------------------------------------------------------------------------------------------
# func_sum:  n_max = max(n);  p = 2. / (1 - np.arange(0, n_max, 2)**2);  v = np.array([[1.]]);
#            for ak, bk, y, nk in zip(a, b, A, n):  v = v @ (p[:(nk + 1)//2] @ y[:, ::2]);  v *= (bk - ak) / 2.
#
# theory: every second mode slice, squares of integers (in the product abstraction mulI), the Clenshaw-Curtis chain

cstep2 = z3.Function('cstep2', T.Core, T.Core)
ccchain = z3.Function('ccchain', T.TT, RA, RA, RA, I, T.Mat)
_av, _bv, _wv = z3.Const('a!fv', RA), z3.Const('b!fv', RA), z3.Const('w!fv', RA)


T.GROUPS['cstep2'] = [
    T.A([_G], z3.And(T.d0(cstep2(_G)) == T.d0(_G), T.d1(cstep2(_G)) == (T.d1(_G) + 1) / 2, T.d2(cstep2(_G)) == T.d2(_G)), [cstep2(_G)]),
    T.A([_G, _k], z3.Implies(z3.And(0 <= _k, 2 * _k < T.d1(_G)), T.sl(cstep2(_G), _k) == T.sl(_G, 2 * _k)), [T.sl(cstep2(_G), _k)]),
]
T.GROUPS['isq'] = [
    T.A([_k], z3.And(T.mulI(_k, _k) >= 0, z3.Implies(T.mulI(_k, _k) == 1, z3.Or(_k == 1, _k == -1)), z3.Implies(T.mulI(_k, _k) == 0, _k == 0)),
        [T.mulI(_k, _k)]),
]
T.GROUPS['ccchain'] = [
    T.A([T.Y_, _av, _bv, _wv], ccchain(T.Y_, _av, _bv, _wv, 0) == T.sc(1), [ccchain(T.Y_, _av, _bv, _wv, 0)]),
    T.A([T.Y_, _av, _bv, _wv, _k, _k1], z3.Implies(z3.And(_k >= 0, _k1 == _k + 1),
                                                   ccchain(T.Y_, _av, _bv, _wv, _k1)
                                                   == T.smul((_bv[_k] - _av[_k]) / 2, T.mm(ccchain(T.Y_, _av, _bv, _wv, _k), T.wsum(cstep2(T.Y_[_k]), _wv)))),
        [z3.MultiPattern(ccchain(T.Y_, _av, _bv, _wv, _k), ccchain(T.Y_, _av, _bv, _wv, _k1))]),
]

_orig_max = M.FUNCS['max']


@model('max')
def m_max_vec(ex, st, args, kwargs, node):
    v = st.deref(args[0]) if len(args) == 1 else None
    if on(ex) and not kwargs and is_vec(v, 'ivec'):
        used('max(v) of a 1-D integer array -> an element of v that no element exceeds (requires a non-empty array)')
        n = Z(v.shape[0])
        ex.oblige(st, 'call-pre', 'max-of-a-non-empty-sequence', n >= 1, node)
        mx, w = ex.fresh_int('max'), ex.fresh_int('argmax')
        st.assume(0 <= w, w < n, v.t[w] == mx, z3.ForAll([_k], z3.Implies(z3.And(0 <= _k, _k < n), v.t[_k] <= mx), patterns=[v.t[_k]]))
        st.ghost.setdefault('max_calls', []).append((v, mx))
        return mx
    return _orig_max(ex, st, args, kwargs, node)


_orig_arange = M.FUNCS['np.arange']


@model('np.arange')
def m_arange_step(ex, st, args, kwargs, node):
    if on(ex) and len(args) == 3 and not kwargs:
        lo, hi, stp = [ex.need_num(st, a, node) for a in args]
        if is_intsort(lo) and is_intsort(hi) and isinstance(stp, int) and not isinstance(stp, bool) and stp >= 1:
            used('np.arange(lo, hi, step) for integers, step >= 1 -> the vector lo, lo + step, ... below hi; length ceil((hi - lo) / step)')
            lo, hi = Z(lo), Z(hi)
            n = z3.simplify(z3.If(hi > lo, (hi - lo + (stp - 1)) / stp, 0))
            arr = ex.fresh('arange', IA)
            st.assume(z3.ForAll([_k], arr[_k] == lo + stp * _k, patterns=[arr[_k]]))
            return ivec(n, arr)
    return _orig_arange(ex, st, args, kwargs, node)


_orig_binop = M.arr_binop


def arr_binop(ex, st, op, l, r, node):
    if on(ex):
        if isinstance(op, ast.Pow) and is_vec(l, 'ivec') and isinstance(r, int) and not isinstance(r, bool) and r == 2:
            used('v ** 2 for an integer vector -> elementwise square (product abstraction mulI)')
            arr = ex.fresh('isq', IA)
            st.assume(z3.ForAll([_k], arr[_k] == T.mulI(l.t[_k], l.t[_k]), patterns=[arr[_k]]))
            return ivec(l.shape[0], arr)
        if isinstance(op, ast.Sub) and is_vec(r, 'ivec') and not isinstance(l, VArr) and is_num(l) and is_intsort(l):
            used('c - v for an integer c and an integer vector v -> elementwise')
            arr = ex.fresh('idiff', IA)
            st.assume(z3.ForAll([_k], arr[_k] == Z(l) - r.t[_k], patterns=[arr[_k]]))
            return ivec(r.shape[0], arr)
        if isinstance(op, ast.Div) and is_vec(r, 'ivec') and not isinstance(l, VArr) and is_num(l):
            used('c / v for a number c and an integer vector v -> elementwise true division; every element of v must be non-zero')
            n = Z(r.shape[0])
            ex.oblige(st, 'safety', 'elementwise-division-by-nonzero', z3.ForAll([_k], z3.Implies(z3.And(0 <= _k, _k < n), r.t[_k] != 0)), node)
            arr = ex.fresh('quot', RA)
            st.assume(z3.ForAll([_k], arr[_k] == to_real(l) / z3.ToReal(r.t[_k]), patterns=[arr[_k]]))
            return rvec(r.shape[0], arr)
    return _orig_binop(ex, st, op, l, r, node)


M.arr_binop = arr_binop
def _wrap_array(name):
    orig = M.FUNCS[name]

    def m_array_1x1(ex, st, args, kwargs, node):
        v = st.deref(args[0]) if args else None
        if on(ex) and len(args) == 1 and not kwargs and isinstance(v, VList) and len(v.items) == 1:
            w = st.deref(v.items[0])
            if isinstance(w, VList) and len(w.items) == 1 and is_num(w.items[0]) and not is_intsort(w.items[0]):
                used('np.array([[x]]) for a float x -> the 1 x 1 matrix [[x]] (sc(x))')
                return VArr((1, 1), T.sc(to_real(w.items[0])), 'mat')
        return orig(ex, st, args, kwargs, node)
    M.FUNCS[name] = m_array_1x1


for _nm in ('np.array', 'np.asanyarray', 'np.asarray'):
    _wrap_array(_nm)


_orig_iter_of_value = M._iter_of_value


def _iter_of_value(ex, st, v, node):
    w = st.deref(v)
    if on(ex) and is_vec(w, 'rvec'):
        used('iteration over a 1-D float array -> its elements in order')
        return Z(w.shape[0]), (lambda j, w=w: w.t[j]), False
    return _orig_iter_of_value(ex, st, v, node)


M._iter_of_value = _iter_of_value
_orig_index = M.arr_index


def arr_index(ex, st, a, sl_, node):
    if on(ex) and isinstance(a, VArr) and a.ndim == 3 and a.tag == 'core' and a.t is not None and isinstance(sl_, ast.Tuple) and len(sl_.elts) == 2:
        e0, e1 = sl_.elts
        if _full(e0) and isinstance(e1, ast.Slice) and e1.lower is None and e1.upper is None and e1.step is not None:
            stp = ex.ev(e1.step, st)
            if isinstance(stp, int) and not isinstance(stp, bool) and stp == 2:
                used('G[:, ::2] -> cstep2(G): the mode slices 0, 2, 4, ...; (n + 1) // 2 of them')
                return VArr((a.shape[0], (Z(a.shape[1]) + 1) / 2, a.shape[2]), cstep2(a.t), 'core')
    return _orig_index(ex, st, a, sl_, node)


M.arr_index = arr_index
_orig_matmul = M.matmul


def matmul(ex, st, l, r, node):
    if on(ex) and is_vec(l, 'rvec') and isinstance(r, VArr) and r.ndim == 3 and r.tag == 'core' and r.t is not None:
        used('p @ G for a 1-D p and a 3-D G -> sum_m p[m] * G[:, m, :] (wsum); requires len(p) = n(G)')
        ex.oblige(st, 'call-pre', 'matmul-inner-dims-agree', Z(l.shape[0]) == Z(r.shape[1]), node)
        return VArr((r.shape[0], r.shape[2]), T.wsum(r.t, l.t), 'mat')
    return _orig_matmul(ex, st, l, r, node)


M.matmul = matmul


# ----------------------------------------------------------------------------------------------
# func_get: closures, lists of closures / matrices built by comprehensions, try / except TypeError, batches of points
#
# theory
mrow = z3.Function('mrow', T.Mat, I, RA)              # the entries of row i of a matrix as a vector: mrow(M, i)[j] = M[i, j]
WL = z3.ArraySort(I, RA)                              # a batch of points X[s][k] / a list of weight vectors P[k][j] (same sort as mx_act.WL)
pcol = z3.Function('pcol', WL, I, RA)                 # column k of a batch of points: pcol(X, k)[s] = X[s][k]
bsel = z3.Function('bsel', MA, I, WL)                 # bsel(T, s)[k] = row s of the k-th matrix of the list T (weights of sample s, mode k)
_X = z3.Const('X!fv', WL)
_TA = z3.Const('T!fv', MA)
_s = z3.Int('s!f')

T.GROUPS['mrow'] = [
    T.A([_M, _k, _j], mrow(_M, _k)[_j] == T.ent(_M, _k, _j), [mrow(_M, _k)[_j]]),
    T.A([_X, _k, _s], pcol(_X, _k)[_s] == _X[_s][_k], [pcol(_X, _k)[_s]]),
    T.A([_TA, _s, _k], bsel(_TA, _s)[_k] == mrow(T.row(_TA[_k], _s), 0), [bsel(_TA, _s)[_k]]),
]
chebscale = z3.Function('chebscale', R, R, R, R)      # the map of poi_scale(., a, b, 'cheb'): clip((x - (b+a)/2) * 2/(b-a), -1, 1); abstract inside e-matching proofs
_ra, _rb = z3.Reals('a!fr b!fr')
_aff = (_x - (_rb + _ra) / 2) * (2 / (_rb - _ra))
T.GROUPS['chebscale'] = [
    T.A([_x, _ra, _rb], z3.Implies(_ra < _rb, chebscale(_x, _ra, _rb) == z3.If(_aff < -1, -1, z3.If(_aff > 1, 1, _aff))), [chebscale(_x, _ra, _rb)]),
]
T.GROUPS['entsub'] = [
    T.A([_M, _k, _j], T.ent(T.tr(_M), _k, _j) == T.ent(_M, _j, _k), [T.ent(T.tr(_M), _k, _j)]),
    T.A([_M, _a, _k, _j], z3.Implies(z3.And(0 <= _j, _j < _a, _a <= T.cols(_M)), T.ent(V.lcols(_M, _a), _k, _j) == T.ent(_M, _k, _j)),
        [T.ent(V.lcols(_M, _a), _k, _j)]),
    T.A([_M, _k, _j], z3.Implies(z3.And(0 <= _k, _k < T.rows(_M)), T.ent(T.row(_M, _k), 0, _j) == T.ent(_M, _k, _j)), [T.ent(T.row(_M, _k), 0, _j)]),
]


def _mentions(f, c):
    return M._mentions(f, c)


def _fresh_after(term, cnt0):
    """The engine-made fresh constants (name!N, N > cnt0) that occur in a term."""
    out, stack, seen = {}, [term], set()
    while stack:
        t = stack.pop()
        if t.get_id() in seen:
            continue
        seen.add(t.get_id())
        if z3.is_const(t) and t.decl().kind() == z3.Z3_OP_UNINTERPRETED:
            nm = t.decl().name()
            if '!' in nm and nm.rsplit('!', 1)[1].isdigit() and int(nm.rsplit('!', 1)[1]) > cnt0:
                out[nm] = t
        elif z3.is_app(t):
            stack.extend(t.children())
        elif z3.is_quantifier(t):
            stack.append(t.body())
            for p in range(t.num_patterns()):
                stack.extend(t.pattern(p).children())
    return out


class VClosure(VFunc):
    """`lambda params: body` evaluated later with the values its free variables had when it was created (they must not be rebound in between)."""
    def __init__(self, params, body, captured):
        self.params, self.body, self.captured = params, body, captured
        VFunc.__init__(self, 'lambda', self._call)

    def _call(self, ex, st, args, kwargs, node):
        if kwargs or len(args) != len(self.params):
            raise Unsupported('call of a lambda with keywords / wrong arity')
        used('lambda x: expr -> the expression evaluated at call time with the captured values of its free variables')
        bind = dict(self.captured)
        bind.update(zip(self.params, args))
        saved = {nm: st.vars[nm] for nm in bind if nm in st.vars}
        st.vars.update(bind)
        try:
            return ex.ev(self.body, st)
        finally:
            for nm in bind:
                if nm in saved:
                    st.vars[nm] = saved[nm]
                else:
                    st.vars.pop(nm, None)

    def instantiate(self, j, k):
        cap = {}
        for nm, v in self.captured.items():
            if isinstance(v, (z3.ExprRef,)):
                cap[nm] = z3.substitute(v, (j, Z(k)))
            elif isinstance(v, (int, float, bool, VStr)) or v is NONE:
                cap[nm] = v
            else:
                raise Unsupported(f'list of closures: captured variable {nm} is not a number')
        return VClosure(self.params, self.body, cap)


_orig_ev_lambda = symex.Exec.ev_Lambda


def _ev_Lambda(self, e, st):
    if not on(self):
        return _orig_ev_lambda(self, e, st)
    a = e.args
    if a.defaults or a.vararg or a.kwarg or a.kwonlyargs or getattr(a, 'posonlyargs', None):
        raise Unsupported('lambda with defaults / starred parameters')
    params = [x.arg for x in a.args]
    free = {n.id for n in ast.walk(e.body) if isinstance(n, ast.Name) and isinstance(n.ctx, ast.Load)} - set(params)
    captured = {nm: st.vars[nm] for nm in sorted(free) if nm in st.vars}
    # the captured values are a snapshot: sound only for variables that the enclosing function never rebinds at its own level
    # (parameters of a local `def` and comprehension targets live in their own scopes)
    rebound = _function_level_stores(self.func.node) & set(captured)
    if rebound:
        raise Unsupported(f'lambda captures {sorted(rebound)}, which the enclosing function assigns: late binding is not modelled')
    return VClosure(params, e.body, captured)


def _function_level_stores(fnode):
    out, stack = set(), list(fnode.body)
    while stack:
        n = stack.pop()
        if isinstance(n, (ast.FunctionDef, ast.Lambda, ast.ListComp, ast.SetComp, ast.DictComp, ast.GeneratorExp, ast.ClassDef)):
            continue
        if isinstance(n, ast.Name) and isinstance(n.ctx, ast.Store):
            out.add(n.id)
        stack.extend(ast.iter_child_nodes(n))
    return out


symex.Exec.ev_Lambda = _ev_Lambda


class FSeq(VSeq):
    """[make_closure(..) for .. in seq]: element k is the prototype closure with the generic index replaced by k."""
    def __init__(self, n, j, proto):
        super().__init__(None, n, None, 'closures')
        self.j, self.proto = j, proto

    def get(self, k):
        return self.proto.instantiate(self.j, k)

    def copy(self):
        return FSeq(self.n, self.j, self.proto)


def _generalise(f, j, guard, sub, anchor):
    """forall j. guard -> f  with the per-element constants replaced by functions of j; quantifiers of f are merged so that the patterns stay usable."""
    if sub:
        f = z3.substitute(f, *sub)
    if z3.is_quantifier(f) and f.is_forall() and f.num_patterns() > 0:
        vs = [z3.Const(f.var_name(i), f.var_sort(i)) for i in range(f.num_vars())]
        body = z3.substitute_vars(f.body(), *reversed(vs))
        pats = []
        for p in range(f.num_patterns()):
            terms = [z3.substitute_vars(t, *reversed(vs)) for t in f.pattern(p).children()]
            if not any(_mentions(t, j) for t in terms):
                terms.append(anchor)
            pats.append(z3.MultiPattern(*terms) if len(terms) > 1 else terms[0])
        return z3.ForAll([j] + vs, z3.Implies(guard, body), patterns=pats)
    return z3.ForAll([j], z3.Implies(guard, f), patterns=[anchor])


_orig_listcomp = M.listcomp


def listcomp(ex, st, e):
    if not on(ex) or len(e.generators) != 1 or e.generators[0].ifs:
        return _orig_listcomp(ex, st, e)
    g = e.generators[0]
    npc, nobl, assumed, saved, cnt_it = len(st.pc), len(st.obl), set(st.assumed), dict(st.vars), ex.cnt
    it = M.iteration(ex, st, g.iter, e)

    def rollback():
        del st.pc[npc:]
        del st.obl[nobl:]
        st.assumed.clear()
        st.assumed.update(assumed)

    if it.concrete is not None:
        rollback()
        return _orig_listcomp(ex, st, e)
    j = ex.fresh_int('lc')
    cntj = ex.cnt
    mark = len(st.pc)
    guard = z3.And(j >= 0, j < it.n)
    st.pc.append(guard)
    try:
        ex.assign(g.target, it.bind(ex, st, j), st)
        elt = st.deref(ex.ev(e.elt, st))
    finally:
        for k in list(st.vars):
            if k not in saved:
                del st.vars[k]
            else:
                st.vars[k] = saved[k]
    is_mat = isinstance(elt, VArr) and elt.ndim == 2 and elt.tag == 'mat' and elt.t is not None
    if not (isinstance(elt, VClosure) or is_mat):
        rollback()
        return _orig_listcomp(ex, st, e)
    added = st.pc[mark + 1:]
    del st.pc[mark:]
    # per-element fresh constants become functions of the generic index (every element has its own)
    per = {}
    for t in added + ([elt.t, Z(elt.shape[0]), Z(elt.shape[1])] if is_mat else [v for v in elt.captured.values() if isinstance(v, z3.ExprRef)]):
        per.update(_fresh_after(t, cntj))
    sub = []
    for nm, c in sorted(per.items()):
        ex.cnt += 1
        sub.append((c, z3.Function(f'{nm}@{ex.cnt}', I, c.sort())(j)))
    if isinstance(elt, VClosure):
        if sub:
            raise Unsupported('list of closures over per-element intermediate values')
        for f in added:
            st.pc.append(f if not _mentions(f, j) and f.get_id() not in st.assumed else z3.ForAll([j], z3.Implies(guard, f)))
        used('[closure(x) for x in seq] -> list of len(seq) closures, element k captures the values of element k')
        return st.alloc(FSeq(it.n, j, elt))
    arr = ex.fresh('lcmats', MA)
    anchor = arr[j]
    tsub = lambda t: z3.substitute(Z(t), *sub) if sub else Z(t)
    st.pc.append(z3.ForAll([j], z3.Implies(guard, z3.And(arr[j] == tsub(elt.t), T.rows(arr[j]) == tsub(elt.shape[0]), T.cols(arr[j]) == tsub(elt.shape[1]))),
                           patterns=[anchor]))
    for f in added:
        if not _mentions(f, j) and not _fresh_after(f, cntj) and f.get_id() not in st.assumed:
            st.pc.append(f)
        else:
            st.pc.append(_generalise(f, j, guard, sub, anchor))
    used('[matrix_expr(x) for x in seq] -> list of len(seq) matrices; what holds for the generic element holds for every element '
         '(intermediate values of the element expression become functions of the position)')
    return st.alloc(VSeq(arr, it.n, M.mk_mat, 'mats'))


M.listcomp = listcomp
_orig_try = M.try_stmt


def try_stmt(ex, st, s):
    if not on(ex) or s.orelse or s.finalbody or len(s.handlers) != 1 or s.handlers[0].name is not None \
            or not (isinstance(s.handlers[0].type, ast.Name) and s.handlers[0].type.id == 'TypeError'):
        return _orig_try(ex, st, s)
    used('try: body / except TypeError: handler -> the handler runs on the paths where the body raises TypeError (the engine raises it nowhere: '
         'operations that would are outside the supported subset)')
    out = []
    for s1, o1 in ex.exec_block(s.body, st):
        if o1.kind == 'raise' and o1.exc == 'TypeError':
            out.extend(ex.exec_block(s.handlers[0].body, s1))
        else:
            out.append((s1, o1))
    return out


M.try_stmt = try_stmt


# ---- batches of points: a 2-D float array of shape (m, d) with denotation X: s -> (k -> X[s, k])   (tags 'pts', transposed view 'ptsT')

def pts(m, d, Xt):
    return VArr((m, d), Xt, 'pts', 'f')


def _is_none_const(e):
    return isinstance(e, ast.Constant) and e.value is None


_orig_index2 = M.arr_index


def arr_index2(ex, st, a, sl_, node):
    if on(ex) and isinstance(a, VArr) and a.tag == 'pts' and a.ndim == 2 and not isinstance(sl_, (ast.Tuple, ast.Slice)):
        iv = ex.ev(sl_, st)
        if is_num(iv) and is_intsort(iv):
            i = M.norm_index(ex, st, iv, a.shape[0], node, 'row-index')
            used('X[i] of a 2-D float array -> its i-th row')
            return rvec(a.shape[1], a.t[Z(i)])
    if on(ex) and isinstance(a, VArr) and isinstance(sl_, ast.Tuple) and len(sl_.elts) == 2:
        e0, e1 = sl_.elts
        if a.tag == 'pts' and a.ndim == 2 and _full(e1) and not isinstance(e0, ast.Slice) and not _is_none_const(e0):
            iv = ex.ev(e0, st)
            if is_num(iv) and is_intsort(iv):
                i = M.norm_index(ex, st, iv, a.shape[0], node, 'row-index')
                used('X[i, :] of a 2-D float array -> its i-th row')
                return rvec(a.shape[1], a.t[Z(i)])
        if is_vec(a, 'rvec') and _is_none_const(e0) and _full(e1):
            used('x[None, :] of a 1-D float array -> the 1 x n array with that row')
            return pts(1, a.shape[0], z3.K(I, a.t))
    return _orig_index2(ex, st, a, sl_, node)


M.arr_index = arr_index2
_orig_attribute = M.attribute


def attribute(ex, st, v, attr, node):
    if on(ex) and isinstance(v, VArr) and v.tag == 'pts' and attr == 'T':
        used('X.T of a 2-D float array -> the transposed view')
        return VArr((v.shape[1], v.shape[0]), v.t, 'ptsT', 'f')
    return _orig_attribute(ex, st, v, attr, node)


M.attribute = attribute
_orig_iter_of_value2 = M._iter_of_value


def _iter_of_value2(ex, st, v, node):
    w = st.deref(v)
    if on(ex) and isinstance(w, VArr) and w.tag == 'ptsT' and w.ndim == 2:
        used('iteration over X.T -> the columns of X in order')
        return Z(w.shape[0]), (lambda k, w=w: rvec(w.shape[1], pcol(w.t, k))), False
    return _orig_iter_of_value2(ex, st, v, node)


M._iter_of_value = _iter_of_value2
_orig_binop2 = M.arr_binop


def arr_binop2(ex, st, op, l, r, node):
    if on(ex) and isinstance(op, ast.Sub) and is_vec(l, 'rvec') and is_vec(r, 'rvec'):
        used('u - v for two 1-D float arrays -> elementwise (requires equal lengths)')
        ex.oblige(st, 'call-pre', 'elementwise-shapes-agree', Z(l.shape[0]) == Z(r.shape[0]), node)
        arr = ex.fresh('vdiff', RA)
        st.assume(z3.ForAll([_k], arr[_k] == l.t[_k] - r.t[_k], patterns=[arr[_k], l.t[_k], r.t[_k]]))
        return rvec(l.shape[0], arr)
    return _orig_binop2(ex, st, op, l, r, node)


M.arr_binop = arr_binop2
_orig_npmax = M.FUNCS['np.max']


@model('np.max')
def m_npmax_vec(ex, st, args, kwargs, node):
    v = st.deref(args[0]) if len(args) == 1 else None
    if on(ex) and not kwargs and is_vec(v, 'rvec'):
        used('np.max(v) of a 1-D float array -> an element of v that no element exceeds (requires a non-empty array)')
        n = Z(v.shape[0])
        ex.oblige(st, 'call-pre', 'max-of-a-non-empty-array', n >= 1, node)
        mx, w = ex.fresh_real('max'), ex.fresh_int('argmax')
        st.assume(z3.And(0 <= w, w < n, v.t[w] == mx), z3.ForAll([_k], z3.Implies(z3.And(0 <= _k, _k < n), v.t[_k] <= mx), patterns=[v.t[_k]]))
        return mx
    return _orig_npmax(ex, st, args, kwargs, node)


_orig_store2 = M.store


def store2(ex, st, base, sl_, v, node, base_node):
    b = st.deref(base)
    if on(ex) and is_vec(b, 'rvec') and isinstance(base_node, ast.Name) and not isinstance(sl_, (ast.Slice, ast.Tuple, ast.Compare)):
        iv = ex.ev(sl_, st)
        if is_num(iv) and is_intsort(iv) and is_num(v):
            i = M.norm_index(ex, st, iv, b.shape[0], node, 'array-index')
            used('y[i] = x on a 1-D float array -> the array with element i replaced')
            arr = ex.fresh('yupd', RA)
            st.assume(arr == z3.Store(b.t, Z(i), to_real(v)))
            st.vars[base_node.id] = rvec(b.shape[0], arr)
            return
    return _orig_store2(ex, st, base, sl_, v, node, base_node)


M.store = store2
_orig_einsum2 = M.FUNCS['np.einsum']


@model('np.einsum')
def m_einsum_get(ex, st, args, kwargs, node):
    sub = args[0].concrete() if args and isinstance(args[0], VStr) else None
    key = (sub or '').replace(' ', '')
    if on(ex) and key == 'rjq,j->rq' and len(args) == 3 and not kwargs:
        G, w = st.deref(args[1]), st.deref(args[2])
        if isinstance(G, VArr) and G.ndim == 3 and G.tag == 'core' and G.t is not None and isinstance(w, VArr) and w.ndim == 1 and w.tag == 'vec' \
                and w.t is not None:
            used("np.einsum('rjq,j->rq', G, w) -> weighted mode sum wsum(G, w) = sum_j w[j] G[:, j, :]; requires len(w) = n(G)")
            ex.oblige(st, 'call-pre', 'einsum-contracted-dimensions-agree', Z(G.shape[1]) == Z(w.shape[0]), node)
            return VArr((G.shape[0], G.shape[2]), T.wsum(G.t, mrow(w.t, 0)), 'mat')
    return _orig_einsum2(ex, st, args, kwargs, node)


# ----------------------------------------------------------------------------------------------
# func_diff_matrix (shape / control tier): NumPy calls on 2-D arrays of which only the SHAPE is tracked.  Active only with
# `ex.functt_shapes = True` in addition to `ex.functt`.  A product  <2-D array> * <number>  remembers its two operands in `.scaled_by`.

def shapes_on(ex):
    return on(ex) and getattr(ex, 'functt_shapes', False)


def _arr2(v):
    return isinstance(v, VArr) and v.ndim == 2


def _shape_model(name, fn):
    orig = M.FUNCS.get(name)

    def h(ex, st, args, kwargs, node):
        if shapes_on(ex):
            out = fn(ex, st, args, kwargs, node)
            if out is not None:
                return out
        if orig is None:
            raise Unsupported(f'{name} calling pattern')
        return orig(ex, st, args, kwargs, node)
    M.FUNCS[name] = h


def _m_tile(ex, st, args, kwargs, node):
    v = st.deref(args[0]) if args else None
    reps = st.deref(args[1]) if len(args) == 2 else None
    if not kwargs and isinstance(v, VArr) and v.ndim == 1 and isinstance(reps, (VTuple, VList)) and len(reps.items) == 2 and _is_1(reps.items[1]):
        r = ex.need_num(st, reps.items[0], node)
        used('np.tile(v, (r, 1)) of a 1-D array -> r x len(v) array (every row is v); shape only')
        ex.oblige(st, 'call-pre', 'non-negative-repetition-count', Z(r) >= 0, node)
        return VArr((r, v.shape[0]), None, None, 'f')


def _m_same_shape(what):
    def f(ex, st, args, kwargs, node):
        v = st.deref(args[0]) if len(args) == 1 else None
        if not kwargs and isinstance(v, VArr) and (what == 'np.sin' or v.ndim == 2):
            used(f'{what}(A) -> array of the same shape (shape only)')
            return VArr(v.shape, None, None, 'f')
    return f


def _m_ceil(ex, st, args, kwargs, node):
    if len(args) == 1 and not kwargs and is_num(args[0]):
        v = args[0]
        used('np.ceil(x) -> integer-valued c with c - 1 < x <= c')
        c = ex.fresh_int('ceil')
        st.assume(z3.ToReal(c) - 1 < to_real(v), to_real(v) <= z3.ToReal(c))
        return z3.ToReal(c)


def _m_toeplitz(ex, st, args, kwargs, node):
    v = st.deref(args[0]) if len(args) == 1 else None
    if not kwargs and isinstance(v, VArr) and v.ndim == 1:
        used('scipy.linalg.toeplitz(c) of a 1-D array -> symmetric len(c) x len(c) array (shape only)')
        return VArr((v.shape[0], v.shape[0]), None, None, 'f')


def _m_diag2(ex, st, args, kwargs, node):
    v = st.deref(args[0]) if len(args) == 1 else None
    if not kwargs and _arr2(v):
        used('np.diag(A) of a square 2-D array -> its diagonal, length n (shape only)')
        ex.oblige(st, 'call-pre', 'diag-of-a-square-matrix', Z(v.shape[0]) == Z(v.shape[1]), node)
        return VArr((v.shape[0],), None, None, 'f')


def _m_sum_rows(ex, st, args, kwargs, node):
    v = st.deref(args[0]) if len(args) == 1 else None
    if set(kwargs) == {'axis'} and kwargs['axis'] == 1 and _arr2(v):
        used('np.sum(A, axis=1) of a 2-D array -> vector of the row sums, length rows(A) (shape only)')
        return VArr((v.shape[0],), None, None, 'f')


for _nm, _fn in (('np.tile', _m_tile), ('np.sin', _m_same_shape('np.sin')), ('np.flipud', _m_same_shape('np.flipud')),
                 ('np.fliplr', _m_same_shape('np.fliplr')), ('np.ceil', _m_ceil), ('sp.linalg.toeplitz', _m_toeplitz),
                 ('scipy.linalg.toeplitz', _m_toeplitz), ('np.diag', _m_diag2), ('np.sum', _m_sum_rows)):
    _shape_model(_nm, _fn)

_orig_binop3 = M.arr_binop


def arr_binop3(ex, st, op, l, r, node):
    if shapes_on(ex):
        if isinstance(op, ast.Pow) and is_num(l) and not is_intsort(l) and isinstance(r, VArr) and r.ndim == 1:
            used('x ** v for a float x and a 1-D array v -> array of the same length (shape only)')
            return VArr(r.shape, None, None, 'f')
        if isinstance(op, ast.Div) and is_num(l) and _arr2(r):
            used('x / A for a number x and a 2-D array A -> array of the same shape (elementwise; a zero entry gives inf, not an exception; shape only)')
            return VArr(r.shape, None, None, 'f')
        if isinstance(op, ast.Mult) and _arr2(l) and is_num(r):
            out = _orig_binop3(ex, st, op, l, r, node)
            if isinstance(out, VArr):
                out.scaled_by = (l, r)
            return out
    return _orig_binop3(ex, st, op, l, r, node)


M.arr_binop = arr_binop3


# ----------------------------------------------------------------------------------------------
# func_int_general (control / shape tier): per-core least squares in a user basis
#
# theory (shapes and the unfold / fold round trip only; the VALUE of the least-squares solution is the uninterpreted lsqsol(H, M)):
munf = z3.Function('munf', T.Core, T.Mat)             # np.transpose(G, [1, 0, 2]).reshape(n, -1): the mode unfolding, n x (r1 r2)
mfold = z3.Function('mfold', T.Mat, I, I, T.Core)     # np.transpose(M.reshape(n, r1, r2), [1, 0, 2]): its inverse, shape (r1, n, r2)
lsqsol = z3.Function('lsqsol', T.Mat, T.Mat, T.Mat)   # scipy.linalg.lstsq(H, M)[0]: a least-squares solution of H Q = M (shape axioms only here)
T.GROUPS['lsqsol'] = [
    T.A([_G], z3.And(T.rows(munf(_G)) == T.d1(_G), T.cols(munf(_G)) == T.mulI(T.d0(_G), T.d2(_G))), [munf(_G)]),
    T.A([_M, _a, _b], z3.And(T.d0(mfold(_M, _a, _b)) == _a, T.d1(mfold(_M, _a, _b)) == T.rows(_M), T.d2(mfold(_M, _a, _b)) == _b), [mfold(_M, _a, _b)]),
    T.A([_M, _a, _b], z3.Implies(z3.And(_a >= 1, _b >= 1, T.cols(_M) == T.mulI(_a, _b)), munf(mfold(_M, _a, _b)) == _M), [mfold(_M, _a, _b)]),
    T.A([_M, T.b_], z3.Implies(T.rows(_M) == T.rows(T.b_), z3.And(T.rows(lsqsol(_M, T.b_)) == T.cols(_M), T.cols(lsqsol(_M, T.b_)) == T.cols(T.b_))),
        [lsqsol(_M, T.b_)]),
]


class ConstSeq(VSeq):
    """`[x] * n` for an array x: every element is (the same object) x."""
    def __init__(self, value, n):
        super().__init__(None, n, None, 'const')
        self.value = value

    def get(self, k):
        return self.value

    def copy(self):
        return ConstSeq(self.value, self.n)


_orig_list_repeat2 = M.list_repeat


def list_repeat2(ex, st, lst, n, node):
    if on(ex) and len(lst.items) == 1 and isinstance(st.deref(lst.items[0]), VArr):
        used('[x] * n for an array x -> list of n references to x')
        return st.alloc(ConstSeq(lst.items[0], Z(n)))
    return _orig_list_repeat2(ex, st, lst, n, node)


M.list_repeat = list_repeat2
_orig_iter_of_value3 = M._iter_of_value


def _iter_of_value3(ex, st, v, node):
    w = st.deref(v)
    if on(ex) and isinstance(w, VArr) and w.tag == 'pts' and w.ndim == 2:
        used('iteration over a 2-D float array -> its rows in order')
        return Z(w.shape[0]), (lambda k, w=w: rvec(w.shape[1], w.t[k])), False
    return _orig_iter_of_value3(ex, st, v, node)


M._iter_of_value = _iter_of_value3


def _is_perm102(v, st):
    v = st.deref(v)
    return isinstance(v, (VList, VTuple)) and [x for x in v.items] == [1, 0, 2]


_orig_transpose = M.FUNCS.get('np.transpose')


@model('np.transpose')
def m_transpose(ex, st, args, kwargs, node):
    a = st.deref(args[0]) if args else None
    if on(ex) and len(args) == 2 and not kwargs and isinstance(a, VArr) and a.ndim == 3 and _is_perm102(args[1], st):
        if a.tag == 'core' and a.t is not None:
            used('np.transpose(G, [1, 0, 2]) -> the mode axis first: shape (n, r1, r2)')
            return VArr((a.shape[1], a.shape[0], a.shape[2]), a.t, 'core102')
        if a.tag == 'mat3' and a.t is not None:
            used('np.transpose(M.reshape(n, r1, r2), [1, 0, 2]) -> mfold(M, r1, r2): the core of shape (r1, n, r2) whose mode unfolding is M')
            return VArr((a.shape[1], a.shape[0], a.shape[2]), mfold(a.t, Z(a.shape[1]), Z(a.shape[2])), 'core')
    if _orig_transpose is None:
        raise Unsupported('np.transpose pattern')
    return _orig_transpose(ex, st, args, kwargs, node)


_orig_reshape2 = M.reshape


def reshape2(ex, st, a, shp, order, node):
    if on(ex) and isinstance(a, VArr) and a.t is not None and a.tag in ('core102', 'mat'):
        try:
            dims = M.shape_arg(ex, st, shp, node)
        except Unsupported:
            dims = None
        o = order.concrete() if isinstance(order, VStr) else None
        if dims is not None and o == 'C' and a.tag == 'core102' and len(dims) == 2 and _is_m1(dims[1]) and not _is_m1(dims[0]):
            used('np.transpose(G, [1, 0, 2]).reshape(n, -1) -> munf(G): the n x (r1 r2) mode unfolding; requires n = the mode size')
            ex.oblige(st, 'call-pre', 'reshape-first-dimension-is-the-mode-size', Z(dims[0]) == Z(a.shape[0]), node)
            return M.mk_mat(munf(a.t))
        if dims is not None and o == 'C' and a.tag == 'mat' and len(dims) == 3 and not any(_is_m1(x) for x in dims) and getattr(ex, 'functt_lsq', False):
            used('Q.reshape(n, r1, r2) of a matrix -> 3-D view; the size must be preserved (here: rows = n and columns = r1 r2)')
            ex.oblige(st, 'call-pre', 'reshape-preserves-size', z3.And(Z(a.shape[0]) == Z(dims[0]), Z(a.shape[1]) == T.mul_canon(dims[1], dims[2])), node)
            return VArr(tuple(dims), a.t, 'mat3')
    return _orig_reshape2(ex, st, a, shp, order, node)


M.reshape = reshape2
LSTSQ_PARAMS = ('a', 'b', 'cond', 'overwrite_a', 'overwrite_b', 'check_finite', 'lapack_driver')     # scipy.linalg.lstsq


_orig_lstsq = {nm: M.FUNCS.get(nm) for nm in ('sp.linalg.lstsq', 'scipy.linalg.lstsq')}


@model('sp.linalg.lstsq', 'scipy.linalg.lstsq')
def m_lstsq(ex, st, args, kwargs, node):
    if not (on(ex) and getattr(ex, 'functt_lsq', False)):
        prev = _orig_lstsq.get(ast.unparse(node.func)) or _orig_lstsq['sp.linalg.lstsq']
        if prev is None:
            raise Unsupported('scipy.linalg.lstsq outside the functional tier')
        return prev(ex, st, args, kwargs, node)
    for kw in kwargs:
        ex.oblige(st, 'call-pre', f'scipy.linalg.lstsq-has-a-parameter-named-{kw}', z3.BoolVal(kw in LSTSQ_PARAMS), node)
    bound = dict(zip(LSTSQ_PARAMS, args))
    bound.update({k: v for k, v in kwargs.items() if k in LSTSQ_PARAMS})
    H, Mx = st.deref(bound.get('a')), st.deref(bound.get('b'))
    if not (isinstance(H, VArr) and H.ndim == 2 and H.tag == 'mat' and H.t is not None and isinstance(Mx, VArr) and Mx.ndim == 2 and Mx.tag == 'mat'
            and Mx.t is not None):
        raise Unsupported('scipy.linalg.lstsq: operands without a denotation')
    used('scipy.linalg.lstsq(H, M, cond, overwrite_a, overwrite_b) -> (Q, residues, rank, singular values), Q = lsqsol(H, M) of shape '
         '(cols H, cols M); requires rows H = rows M   [A-LAPACK]')
    ex.oblige(st, 'call-pre', 'lstsq-row-counts-agree', Z(H.shape[0]) == Z(Mx.shape[0]), node)
    st.ghost.setdefault('lstsq_calls', []).append(dict(H=H, M=Mx, cond=bound.get('cond', NONE), overwrite_a=bound.get('overwrite_a', False),
                                                       overwrite_b=bound.get('overwrite_b', False)))
    return VTuple([M.mk_mat(lsqsol(H.t, Mx.t)), VOpaque('residues'), VOpaque('rank'), VOpaque('singular values')])
