"""Model-table entries for 1-D real/integer/boolean vectors and the spectral factorisations
(np.linalg.svd / eigh, cumsum, where, argsort, diag ...) used by teneva.svd (C02, C03, C11).

A 1-D array is a VArr with shape (n,) whose denotation `t` is a z3 array Int -> Real/Int/Bool (tags 'rvec',
'ivec', 'bvec').  Facts about fresh vectors are added to the path condition with explicit patterns.
"""
import ast
import z3
from ttvc.symex import Unsupported, NONE, VStr, VOpt, VTuple, VRef, VList, VSeq, VArr, Z, is_num, is_intsort, quick_unsat
from ttvc import theory as T
from ttvc import models as M
from ttvc.models import model, used, to_real

RA = z3.ArraySort(z3.IntSort(), z3.RealSort())
IA = z3.ArraySort(z3.IntSort(), z3.IntSort())
BA = z3.ArraySort(z3.IntSort(), z3.BoolSort())
_i, _j = z3.Ints('i!v j!v')

lcols = z3.Function('lcols', T.Mat, z3.IntSort(), T.Mat)     # A[:, :r]
trows = z3.Function('trows', T.Mat, z3.IntSort(), T.Mat)     # A[:r, :]
nonzero = z3.Function('nonzero', T.Mat, z3.BoolSort())      # A has a non-zero entry  (<=> largest singular value > 0)
diag = z3.Function('diag', RA, z3.IntSort(), T.Mat)           # np.diag(s[:r])

T.GROUPS['sub'] = [
    T.A([T.a_, T.m_], z3.And(T.rows(lcols(T.a_, T.m_)) == T.rows(T.a_), T.cols(lcols(T.a_, T.m_)) == T.m_), [lcols(T.a_, T.m_)]),
    T.A([T.a_, T.m_], z3.And(T.rows(trows(T.a_, T.m_)) == T.m_, T.cols(trows(T.a_, T.m_)) == T.cols(T.a_)), [trows(T.a_, T.m_)]),
]


class RVec(VArr):
    """Real vector with Python-side flags (nonneg, desc) that have been turned into facts when created."""
    def __init__(self, n, arr, flags=(), tag='rvec', dtype='f'):
        super().__init__((n,), arr, tag, dtype)
        self.flags = set(flags)


def fresh_rvec(ex, st, n, name, flags=()):
    arr = ex.fresh(name, RA)
    if 'nonneg' in flags:
        st.assume(z3.ForAll([_i], arr[_i] >= 0, patterns=[arr[_i]]))
    if 'desc' in flags:
        st.assume(z3.ForAll([_i, _j], z3.Implies(z3.And(0 <= _i, _i <= _j, _j < Z(n)), arr[_i] >= arr[_j]),
                            patterns=[z3.MultiPattern(arr[_i], arr[_j])]))
    return RVec(n, arr, flags)


def is_rvec(v):
    return isinstance(v, VArr) and v.ndim == 1 and v.tag == 'rvec'


# ---------------------------------------------------------------------------------------------- factorisations

@model('np.linalg.svd')
def m_svd(ex, st, args, kwargs, node):
    a = st.deref(args[0])
    if kwargs.get('full_matrices') is not False:
        raise Unsupported('np.linalg.svd with full_matrices other than False')
    if not (isinstance(a, VArr) and a.ndim == 2):
        raise Unsupported('svd of a non-matrix')
    used('np.linalg.svd(A, full_matrices=False) -> U (m x k), s (k, non-negative, non-increasing), V (k x n), '
         'k = min(m, n), A = U diag(s) V, every leading block of columns of U / rows of V is orthonormal   [A-LAPACK]')
    m_, n_ = Z(a.shape[0]), Z(a.shape[1])
    k = z3.If(m_ <= n_, m_, n_)
    u, v = ex.fresh('U', T.Mat), ex.fresh('V', T.Mat)
    s = fresh_rvec(ex, st, k, 's', flags=('nonneg', 'desc'))
    r = z3.Int('r!svd')
    st.assume(T.rows(u) == m_, T.cols(u) == k, T.rows(v) == k, T.cols(v) == n_)
    st.assume(z3.ForAll([r], z3.Implies(z3.And(0 <= r, r <= k), T.mm(T.tr(lcols(u, r)), lcols(u, r)) == T.eye(r)),
                        patterns=[lcols(u, r)]))
    st.assume(z3.ForAll([r], z3.Implies(z3.And(0 <= r, r <= k), T.mm(trows(v, r), T.tr(trows(v, r))) == T.eye(r)),
                        patterns=[trows(v, r)]))
    if a.t is not None and a.tag == 'mat':
        st.assume(z3.Implies(k >= 1, nonzero(a.t) == (s.t[0] > 0)))
    st.ghost.setdefault('svd', []).append(dict(A=a, U=u, s=s, V=v, k=k))
    return VTuple([M.mk_mat(u), s, M.mk_mat(v)])


@model('np.linalg.eigh')
def m_eigh(ex, st, args, kwargs, node):
    a = st.deref(args[0])
    if not (isinstance(a, VArr) and a.ndim == 2):
        raise Unsupported('eigh of a non-matrix')
    ex.oblige(st, 'call-pre', 'eigh-of-square-matrix', Z(a.shape[0]) == Z(a.shape[1]), node)
    used('np.linalg.eigh(C) -> w (k real eigenvalues), U (k x k orthogonal), C U = U diag(w)   [A-LAPACK]')
    k = Z(a.shape[0])
    u = ex.fresh('Ueig', T.Mat)
    st.assume(T.rows(u) == k, T.cols(u) == k)
    w = fresh_rvec(ex, st, k, 'w')
    st.ghost.setdefault('eigh', []).append(dict(C=a, U=u, w=w))
    return VTuple([w, M.mk_mat(u)])


# ---------------------------------------------------------------------------------------------- vector operations

def vec_binop(ex, st, op, l, r, node):
    """Elementwise operations involving a real vector.  Returns None if the pattern is not handled here."""
    if is_rvec(l) and not isinstance(r, VArr):
        c = ex.need_num(st, r, node)
        n = l.shape[0]
        if isinstance(op, ast.Pow) and c == 2:
            used('v ** 2 -> elementwise square (non-negative)')
            out = fresh_rvec(ex, st, n, 'sq', flags=('nonneg',) + (('desc',) if {'nonneg', 'desc'} <= l.flags else ()))
            st.assume(z3.ForAll([_i], out.t[_i] == T.sqf(l.t[_i]), patterns=[out.t[_i]]))
            st.ghost.setdefault('square', []).append((l, out))
            return out
        if isinstance(op, ast.Div):
            ex.oblige(st, 'safety', 'division-by-nonzero', Z(c) != 0, node)
            used('v / c -> elementwise quotient')
            flags = set()
            out = fresh_rvec(ex, st, n, 'quot')
            st.assume(z3.ForAll([_i], out.t[_i] == T.divf(l.t[_i], to_real(c)), patterns=[out.t[_i]]))
            if 'nonneg' in l.flags and quick_unsat(list(st.pc) + [Z(c) <= 0]):
                out.flags.add('nonneg')
                st.assume(z3.ForAll([_i], out.t[_i] >= 0, patterns=[out.t[_i]]))
                if 'desc' in l.flags:
                    out.flags.add('desc')
                    st.assume(z3.ForAll([_i, _j], z3.Implies(z3.And(0 <= _i, _i <= _j, _j < Z(n)), out.t[_i] >= out.t[_j]),
                                        patterns=[z3.MultiPattern(out.t[_i], out.t[_j])]))
            return out
        if isinstance(op, (ast.Add, ast.Sub)):
            used('v +- c -> elementwise')
            out = fresh_rvec(ex, st, n, 'shifted')
            f = (lambda t: t + to_real(c)) if isinstance(op, ast.Add) else (lambda t: t - to_real(c))
            st.assume(z3.ForAll([_i], out.t[_i] == f(l.t[_i]), patterns=[out.t[_i]]))
            return out
        if isinstance(op, ast.Mult):
            out = fresh_rvec(ex, st, n, 'scaled')
            st.assume(z3.ForAll([_i], out.t[_i] == l.t[_i] * to_real(c), patterns=[out.t[_i]]))
            return out
    if is_rvec(r) and not isinstance(l, VArr) and isinstance(op, ast.Div):
        c = ex.need_num(st, l, node)
        used('c / v -> elementwise quotient; every element of v must be non-zero')
        n = r.shape[0]
        ex.oblige(st, 'safety', 'elementwise-division-by-nonzero',
                  z3.ForAll([_i], z3.Implies(z3.And(0 <= _i, _i < Z(n)), r.t[_i] != 0)), node)
        out = fresh_rvec(ex, st, n, 'inv')
        return out
    return None


_orig_binop = M.arr_binop


def arr_binop(ex, st, op, l, r, node):
    res = vec_binop(ex, st, op, l, r, node)
    if res is not None:
        return res
    return _orig_binop(ex, st, op, l, r, node)


M.arr_binop = arr_binop

_orig_compare = M.arr_compare


def arr_compare(ex, st, op, l, r, node):
    if isinstance(l, VArr) and l.ndim == 1 and l.tag == 'ivec' and l.t is not None and not isinstance(r, VArr) \
            and isinstance(op, (ast.Eq, ast.NotEq)):
        c = Z(ex.need_num(st, r, node))
        used('v == c on an integer vector -> boolean mask, elementwise')
        mk = ex.fresh('mask', BA)
        f = (lambda x: x == c) if isinstance(op, ast.Eq) else (lambda x: x != c)
        st.assume(z3.ForAll([_i], mk[_i] == f(l.t[_i]), patterns=[mk[_i], l.t[_i]]))
        return VArr(l.shape, mk, 'bvec', 'b')
    if is_rvec(l) and not isinstance(r, VArr):
        c = to_real(ex.need_num(st, r, node))
        f = {ast.LtE: lambda x: x <= c, ast.Lt: lambda x: x < c, ast.GtE: lambda x: x >= c, ast.Gt: lambda x: x > c}.get(type(op))
        if f is not None:
            used('v <= c -> boolean mask, elementwise')
            mk = ex.fresh('mask', BA)
            st.assume(z3.ForAll([_i], mk[_i] == f(l.t[_i]), patterns=[mk[_i], l.t[_i]]))
            return VArr(l.shape, mk, 'bvec', 'b')
    return _orig_compare(ex, st, op, l, r, node)


M.arr_compare = arr_compare

_orig_index = M.arr_index


def arr_index(ex, st, a, sl_, node):
    elts = sl_.elts if isinstance(sl_, ast.Tuple) else [sl_]
    if is_rvec(a) and len(elts) == 1 and isinstance(elts[0], ast.Slice):
        e = elts[0]
        n = Z(a.shape[0])
        if e.lower is None and e.upper is None and e.step is not None and ex.ev(e.step, st) == -1:
            used('v[::-1] -> reversed vector')
            out = fresh_rvec(ex, st, a.shape[0], 'rev', flags=a.flags & {'nonneg'})
            st.assume(z3.ForAll([_i], out.t[_i] == a.t[n - 1 - _i], patterns=[out.t[_i]]))
            st.ghost.setdefault('rev', []).append((a, out))
            return out
        if e.lower is None and e.step is None and e.upper is not None:
            hi = Z(ex.need_num(st, ex.ev(e.upper, st), node))
            used('v[:r] -> leading r elements (NumPy clips r to the length)')
            ln = z3.If(hi >= 0, z3.If(hi <= n, hi, n), z3.If(n + hi >= 0, n + hi, 0))
            out = RVec(z3.simplify(ln), a.t, a.flags)
            return out
    if is_rvec(a) and len(elts) == 2 and isinstance(elts[0], ast.Slice) and elts[0].lower is None and elts[0].upper is None \
            and elts[0].step is None and (isinstance(elts[1], ast.Constant) and elts[1].value is None
                                          or ast.unparse(elts[1]) == 'np.newaxis'):
        used('v[:, np.newaxis] -> column of shape (n, 1)')
        return VArr((a.shape[0], 1), None, None, a.dtype)
    if is_rvec(a) and len(elts) == 1 and not isinstance(elts[0], ast.Slice):
        iv = st.deref(ex.ev(elts[0], st))
        if isinstance(iv, VArr) and iv.ndim == 1 and iv.tag == 'ivec' and getattr(iv, 'sortperm', None) is a:
            used('w[np.argsort(w)[::-1]] -> w sorted in non-increasing order (a permutation of w)')
            out = fresh_rvec(ex, st, a.shape[0], 'sorted', flags=(a.flags & {'nonneg'}) | {'desc'})
            st.ghost.setdefault('sorted', []).append((a, out))
            return out
        if isinstance(iv, VArr):
            raise Unsupported('fancy indexing of a real vector')
        i = M.norm_index(ex, st, ex.need_num(st, iv, node), a.shape[0], node, 'array-index')
        return a.t[Z(i)]
    if isinstance(a, VArr) and a.ndim == 1 and a.tag == 'ivec' and len(elts) == 1 and isinstance(elts[0], ast.Slice):
        e = elts[0]
        if e.lower is None and e.upper is None and e.step is not None and ex.ev(e.step, st) == -1 \
                and getattr(a, 'sortperm_asc', None) is not None:
            out = VArr(a.shape, ex.fresh('perm', IA), 'ivec', 'i')
            out.sortperm = a.sortperm_asc
            return out
    if isinstance(a, VArr) and a.ndim == 2 and a.tag == 'mat' and a.t is not None and len(elts) == 2:
        e0, e1 = elts
        full = lambda e: isinstance(e, ast.Slice) and e.lower is None and e.upper is None and e.step is None
        lead = lambda e: isinstance(e, ast.Slice) and e.lower is None and e.step is None and e.upper is not None
        if full(e0) and lead(e1):
            r = Z(ex.need_num(st, ex.ev(e1.upper, st), node))
            used('A[:, :r] -> lcols(A, r) (requires 0 <= r <= number of columns for the denotation)')
            ex.oblige(st, 'safety', 'leading-block-in-range', z3.And(r >= 0, r <= Z(a.shape[1])), node)
            return VArr((a.shape[0], r), lcols(a.t, r), 'mat')
        if lead(e0) and full(e1):
            r = Z(ex.need_num(st, ex.ev(e0.upper, st), node))
            used('A[:r, :] -> trows(A, r)')
            ex.oblige(st, 'safety', 'leading-block-in-range', z3.And(r >= 0, r <= Z(a.shape[0])), node)
            return VArr((r, a.shape[1]), trows(a.t, r), 'mat')
        if full(e0) and not isinstance(e1, ast.Slice):
            iv = st.deref(ex.ev(e1, st))
            if isinstance(iv, VArr) and iv.ndim == 1:
                used('A[:, idx] -> column selection (same shape when idx is a permutation)')
                return VArr((a.shape[0], iv.shape[0]), None, None)
    return _orig_index(ex, st, a, sl_, node)


M.arr_index = arr_index


@model('np.cumsum')
def m_cumsum(ex, st, args, kwargs, node):
    v = st.deref(args[0])
    if not is_rvec(v):
        raise Unsupported('np.cumsum of a non-vector')
    used('np.cumsum(v) -> c with c[0] = v[0], c[t+1] = c[t] + v[t+1]')
    n = v.shape[0]
    out = fresh_rvec(ex, st, n, 'cum', flags=v.flags & {'nonneg'})
    st.assume(out.t[0] == v.t[0])
    st.assume(z3.ForAll([_i, _j], z3.Implies(z3.And(0 <= _i, _j == _i + 1), out.t[_j] == out.t[_i] + v.t[_j]),
                        patterns=[z3.MultiPattern(out.t[_i], out.t[_j])]))
    st.ghost.setdefault('cumsum', []).append((v, out))
    return out


@model('np.where')
def m_where(ex, st, args, kwargs, node):
    mk = st.deref(args[0])
    if len(args) != 1 or not (isinstance(mk, VArr) and mk.ndim == 1 and mk.tag == 'bvec'):
        raise Unsupported('np.where pattern')
    used('np.where(mask)[0] -> increasing vector of exactly the indices where mask holds')
    n = Z(mk.shape[0])
    L = ex.fresh_int('nwhere')
    w = ex.fresh('where', IA)
    pos = z3.Function(f'pos!{ex.cnt}', z3.IntSort(), z3.IntSort())
    st.assume(L >= 0, L <= n)
    st.assume(z3.ForAll([_i], z3.Implies(z3.And(0 <= _i, _i < L), z3.And(0 <= w[_i], w[_i] < n, mk.t[w[_i]])), patterns=[w[_i]]))
    st.assume(z3.ForAll([_i, _j], z3.Implies(z3.And(0 <= _i, _i <= _j, _j < L), w[_i] <= w[_j]),
                        patterns=[z3.MultiPattern(w[_i], w[_j])]))
    st.assume(z3.ForAll([_i], z3.Implies(z3.And(0 <= _i, _i < n, mk.t[_i]), z3.And(0 <= pos(_i), pos(_i) < L, w[pos(_i)] == _i)),
                        patterns=[mk.t[_i]]))
    return VTuple([VArr((L,), w, 'ivec', 'i')])


@model('np.argsort')
def m_argsort(ex, st, args, kwargs, node):
    v = st.deref(args[0])
    if not is_rvec(v):
        raise Unsupported('np.argsort of a non-vector')
    used('np.argsort(w) -> permutation that sorts w in non-decreasing order')
    out = VArr(v.shape, ex.fresh('argsort', IA), 'ivec', 'i')
    out.sortperm_asc = v
    return out


@model('np.diag')
def m_diag(ex, st, args, kwargs, node):
    v = st.deref(args[0])
    if is_rvec(v):
        used('np.diag(v) -> diagonal matrix')
        n = Z(v.shape[0])
        t = diag(v.t, n)
        st.assume(T.rows(t) == n, T.cols(t) == n)
        return VArr((n, n), t, 'mat')
    raise Unsupported('np.diag of a non-vector')


_orig_sqrt = M.FUNCS['np.sqrt']


@model('np.sqrt')
def m_sqrt(ex, st, args, kwargs, node):
    v = st.deref(args[0])
    if is_rvec(v):
        n = Z(v.shape[0])
        used('np.sqrt(v) -> elementwise root; every element must be non-negative')
        if 'nonneg' not in v.flags:
            ex.oblige(st, 'safety', 'sqrt-of-nonnegative',
                      z3.ForAll([_i], z3.Implies(z3.And(0 <= _i, _i < n), v.t[_i] >= 0)), node)
        out = fresh_rvec(ex, st, v.shape[0], 'root', flags={'nonneg'} | (v.flags & {'desc'}))
        st.assume(z3.ForAll([_i], T.sqf(out.t[_i]) == v.t[_i], patterns=[out.t[_i]]))
        return out
    return _orig_sqrt(ex, st, args, kwargs, node)


_orig_store = M.store


def store(ex, st, base, sl_, v, node, base_node):
    b = st.deref(base)
    if is_rvec(b) and isinstance(base_node, ast.Name) and isinstance(sl_, ast.Compare):
        # w[w < 0] = 0.  : clip from below
        mask = st.deref(ex.ev(sl_, st))
        val = ex.need_num(st, v, node)
        if isinstance(mask, VArr) and mask.tag == 'bvec':
            used('v[mask] = c -> elementwise: c where mask holds, unchanged elsewhere')
            out = fresh_rvec(ex, st, b.shape[0], 'clipped')
            st.assume(z3.ForAll([_i], out.t[_i] == z3.If(mask.t[_i], to_real(val), b.t[_i]), patterns=[out.t[_i]]))
            # recognise the clipping idiom  w[w < 0] = 0
            if ast.unparse(sl_).replace(' ', '') in (f'{base_node.id}<0', f'{base_node.id}<0.0') and val == 0:
                out.flags.add('nonneg')
                st.assume(z3.ForAll([_i], out.t[_i] >= 0, patterns=[out.t[_i]]))
            st.vars[base_node.id] = out
            return
    return _orig_store(ex, st, base, sl_, v, node, base_node)


M.store = store

_orig_len = M.FUNCS['len']


@model('np.zeros_like')
def m_zeros_like(ex, st, args, kwargs, node):
    v = st.deref(args[0])
    if isinstance(v, VArr):
        used('np.zeros_like(x) -> zeros of the same shape')
        return VArr(v.shape, None, None, v.dtype)
    raise Unsupported('np.zeros_like of a non-array')


@model('np.divide')
def m_divide(ex, st, args, kwargs, node):
    a, b = args[0], st.deref(args[1])
    if is_rvec(b) and 'where' in kwargs and 'out' in kwargs:
        mask = st.deref(kwargs['where'])
        out0 = st.deref(kwargs['out'])
        n = Z(b.shape[0])
        if isinstance(mask, VArr) and mask.tag == 'bvec' and isinstance(out0, VArr) and out0.ndim == 1:
            used('np.divide(c, v, out=o, where=mask) -> c / v[i] where mask[i], o[i] elsewhere; requires v[i] != 0 where mask[i]')
            ex.need_num(st, a, node)
            ex.oblige(st, 'safety', 'guarded-elementwise-division-by-nonzero',
                      z3.ForAll([_i], z3.Implies(z3.And(0 <= _i, _i < n, mask.t[_i]), b.t[_i] != 0)), node)
            ex.oblige(st, 'call-pre', 'divide-out-shape', Z(out0.shape[0]) == n, node)
            return fresh_rvec(ex, st, b.shape[0], 'winv')
    raise Unsupported('np.divide pattern')
