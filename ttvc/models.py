"""Model table (assumed contracts of NumPy / SciPy / builtins, A-NP) and value-level helpers of ttvc.

Every entry states, for one callable and the calling patterns that occur in teneva: the precondition the
engine must prove at the call site (shape agreement, index range, signature conformance), the shape of the
result, and - where the algebra tier needs it - the denotation of the result in the abstract theory.
Anything not listed raises `Unsupported` (undecided, never a violation).
"""
import ast
import z3
from ttvc.symex import (VSym, quick_unsat, Unsupported, ContractMismatch, NONE, VStr, VOpt, VTuple, VRef, VList, VRec, VSeq, VArr, VFunc,
                        VOpaque, Z, is_num, is_z3num, is_intsort, is_boolv, module_ast, strcode, Outcome, NORMAL)
from ttvc import theory as T

USED = set()          # model-table entries actually used by the unit that is running (reset by units.run; reported as trusted base)
CALLEES_USED = set()  # teneva functions entered THROUGH THEIR CONTRACT by the running unit ('module.function'): their units belong to the same check


def used(name):
    USED.add(name)


class VMap:
    """Opaque mutable mapping (the `cache` dict of cross): contents are not interpreted; the ghost counter
    `writes` counts stores."""
    def __init__(self, name='map'):
        self.name, self.writes = name, 0

    def copy(self):
        m = VMap(self.name)
        m.writes = self.writes
        return m


class VNd:
    """Dense array of symbolic dimension: only its shape (a symbolic integer sequence) is interpreted."""
    def __init__(self, shape_ref):
        self.shape_ref = shape_ref


class TypeVal:
    """Python type objects used as values (dtype=int, isinstance(x, (int, float)), kind(opt))."""
    def __init__(self, name):
        self.name = name

    def __repr__(self):
        return f'<type {self.name}>'


GLOBAL_NAMES = {
    'int': TypeVal('int'), 'float': TypeVal('float'), 'bool': TypeVal('bool'), 'list': TypeVal('list'),
    'str': TypeVal('str'), 'tuple': TypeVal('tuple'), 'dict': TypeVal('dict'), 'object': TypeVal('object'),
    'np.ndarray': TypeVal('ndarray'), 'np.int32': TypeVal('int'), 'np.int64': TypeVal('int'),
    'np.float32': TypeVal('float'), 'np.float64': TypeVal('float'), 'np.integer': TypeVal('int'), 'np.floating': TypeVal('float'),
    'np.newaxis': NONE, 'np.pi': None, 'ValueError': TypeVal('ValueError'),
}
PI = z3.Real('pi')
GLOBAL_NAMES['np.pi'] = PI

FUNCS = {}
CALLEES = {}
PURE = {'len', 'int', 'float', 'abs', 'min', 'max', 'isinstance', 'np.isinf', 'np.sqrt', 'np.abs', 'np.max',
        'np.floor', 'np.log2', 'tuple', 'teneva._is_num', 'range', 'np.array', 'np.asanyarray', 'np.linalg.norm',
        'np.sum', 'np.dot', 'np.ones', 'np.zeros', 'np.arange', 'np.eye', 'bool', 'np.isnan', 'np.isfinite'}


def is_pure_call(name):
    return name in PURE or name.endswith('.startswith') or name.endswith('.item') or name.endswith('.copy')


def module_has(module, name):
    _, tree = module_ast(module)
    return any(isinstance(n, ast.FunctionDef) and n.name == name for n in tree.body)


def model(*names):
    def deco(fn):
        for n in names:
            FUNCS[n] = fn
        return fn
    return deco


def callee(qual):
    def deco(fn):
        CALLEES[qual] = fn
        return fn
    return deco


# ----------------------------------------------------------------------------------------------
# helpers

def zint(v):
    return Z(v)


def kind_of(v):
    if isinstance(v, bool) or isinstance(v, z3.BoolRef):
        return 'bool'
    if is_intsort(v):
        return 'int'
    if is_num(v):
        return 'float'
    return None


def to_real(x):
    x = Z(x)
    return z3.ToReal(x) if x.sort() == z3.IntSort() else x


def nl_mul(ex, st, a, b, node):
    """Product of two symbolic numbers.  Integer dimensions use the uninterpreted mulI (linear abstraction);
    reals use z3's nonlinear arithmetic."""
    if isinstance(a, (int, float)) or isinstance(b, (int, float)):
        return a * b
    if getattr(ex, 'nl_exact', False):
        return Z(a) * Z(b)                 # this unit reasons with true (non-linear) products
    if is_intsort(a) and is_intsort(b):
        used('int*int -> mulI (uninterpreted product of dimensions in canonical form, with monotonicity/unit axioms)')
        return T.mul_canon(Z(a), Z(b))
    return to_real(a) * to_real(b)


def nl_div(ex, st, a, b, node):
    q = a / b
    if z3.is_rational_value(z3.simplify(a)) and z3.simplify(a).as_fraction() == 1:
        st.ghost.setdefault('recip', []).append((a, b, q))       # 1. / d, remembered for x ** (1. / d)
    return q


def nl_floordiv(ex, st, a, b, node):
    raise Unsupported('floor division by a symbolic divisor')


def nl_mod(ex, st, a, b, node):
    raise Unsupported('modulo by a symbolic divisor')


def power(ex, st, a, b, node):
    if isinstance(a, (int, float)) and isinstance(b, (int, float)):
        return a ** b
    if isinstance(b, int) and b == 2:
        return to_real(a) * to_real(a) if not is_intsort(a) else T.mulI(Z(a), Z(a))
    if isinstance(a, (int, float)) and a == 2:
        if is_intsort(b) and isinstance(a, int):
            used('2 ** q -> pow2(q) (pow2(0)=1, pow2(q+1)=2 pow2(q), pow2(q)>=1 for q>=0)')
            return T.pow2(Z(b))
        used('2.0 ** x -> pow2r(x) (uninterpreted, positive)')
        r = T.pow2r(to_real(b))
        st.assume(r > 0)
        return r
    roots = [(den, w) for (num, den, w) in st.ghost.get('recip', []) if z3.eq(to_real(b), w)] if not isinstance(b, (int, float)) else []
    if roots:
        used('x ** (1. / d) for x >= 0 -> the non-negative d-th root w (w^d = x)   [A-REAL]')
        ex.oblige(st, 'safety', 'root-of-non-negative', Z(a) >= 0, node)
        w = ex.fresh_real('root')
        st.assume(w >= 0, z3.Implies(to_real(a) > 0, w > 0))
        st.ghost.setdefault('root', []).append((to_real(a), roots[0][0], w))
        return w
    raise Unsupported(f'power at line {node.lineno}')


def list_repeat(ex, st, lst, n, node):
    if len(lst.items) != 1:
        raise Unsupported('[..] * n with more than one element')
    item = lst.items[0]
    used('[x] * n -> constant sequence of length n')
    if item is NONE:
        arr = z3.K(z3.IntSort(), z3.IntVal(0))
        return st.alloc(VSeq(arr, Z(n), _optarr_wrap, tag='optarr'))
    if is_intsort(item):
        arr = z3.K(z3.IntSort(), Z(item))
        return st.alloc(VSeq(arr, Z(n), lambda t: t, tag='int'))
    raise Unsupported('[x] * n for this element type')


def empty_seq(ex, st, kind):
    """`x = []` for a list that grows in a loop (type hint of the sidecar): symbolic sequence of length 0."""
    if callable(kind):                                     # sidecar-defined sequence kind: kind(ex, st) -> heap reference of a VSeq
        return kind(ex, st)
    if kind == 'intseq':
        return st.alloc(VSeq(ex.fresh('empty', z3.ArraySort(z3.IntSort(), z3.IntSort())), z3.IntVal(0), lambda t: t, tag='int'))
    if kind == 'tt':
        return st.alloc(VSeq(ex.fresh('empty', T.TT), z3.IntVal(0), mk_core, tag='core'))
    raise Unsupported('type hint ' + kind)


def seq_concat(ex, st, a, b, node):
    """[c0, ...] + seq  /  seq + [c0, ...]  for integer sequences."""
    used('list + list -> concatenated sequence')
    k = z3.Int('k!c')
    if isinstance(a, VList) and isinstance(b, VSeq) and b.tag == 'int' and all(is_intsort(x) for x in a.items):
        arr = ex.fresh('cat', b.arr.sort())
        m = len(a.items)
        for i, x in enumerate(a.items):
            st.assume(arr[i] == Z(x))
        st.assume(z3.ForAll([k], z3.Implies(k >= m, arr[k] == b.arr[k - m]), patterns=[arr[k]]))
        return st.alloc(VSeq(arr, b.n + m, b.wrap, 'int'))
    if isinstance(b, VList) and isinstance(a, VSeq) and a.tag == 'int' and all(is_intsort(x) for x in b.items):
        arr = ex.fresh('cat', a.arr.sort())
        st.assume(z3.ForAll([k], z3.Implies(k < a.n, arr[k] == a.arr[k]), patterns=[arr[k]]))
        for i, x in enumerate(b.items):
            st.assume(arr[a.n + i] == Z(x))
        return st.alloc(VSeq(arr, a.n + len(b.items), a.wrap, 'int'))
    raise Unsupported('list concatenation of symbolic sequences')


def contains(ex, st, l, r, neg, node):
    if isinstance(r, VMap):
        return ex.fresh_bool('incache')
    raise Unsupported(f'`in` at line {node.lineno}')


def arr_unary(ex, st, op, v, node):
    if isinstance(op, ast.USub):
        return scale_arr(ex, st, -1, v, node)
    raise Unsupported('unary op on array')


def scale_arr(ex, st, c, v, node):
    used('scalar * ndarray -> smul / cscale')
    c = to_real(c)
    if v.tag == 'core' and v.t is not None:
        return VArr(v.shape, T.cscale(c, v.t), 'core')
    if v.tag in ('mat', 'vec') and v.t is not None:
        return VArr(v.shape, T.smul(c, v.t), v.tag)
    return VArr(v.shape, None, v.tag, v.dtype)


def arr_binop(ex, st, op, l, r, node):
    if isinstance(op, ast.MatMult):
        return matmul(ex, st, l, r, node)
    la, ra = isinstance(l, VArr), isinstance(r, VArr)
    if isinstance(op, ast.Mult) and (la != ra):
        arr, sc = (l, r) if la else (r, l)
        return scale_arr(ex, st, ex.need_num(st, sc, node), arr, node)
    if isinstance(op, ast.Div) and la and not ra:
        c = ex.need_num(st, r, node)
        ex.oblige(st, 'safety', 'division-by-nonzero', Z(c) != 0, node)
        return scale_arr(ex, st, 1 / to_real(c), l, node)
    if la and ra and isinstance(op, (ast.Add, ast.Sub, ast.Mult, ast.Div)):
        # elementwise: equal shapes, or NumPy broadcasting of literal size-1 axes / missing leading axes
        if l.ndim != r.ndim:
            lo, hi = (l, r) if l.ndim < r.ndim else (r, l)
            pad = (1,) * (hi.ndim - lo.ndim) + tuple(lo.shape)
            shp = []
            for a, b in zip(pad, hi.shape):
                if isinstance(a, int) and a == 1:
                    shp.append(b)
                else:
                    ex.oblige(st, 'call-pre', 'broadcast-shapes-agree', Z(a) == Z(b), node)
                    shp.append(b)
            used('elementwise operation with NumPy broadcasting of leading axes')
            return VArr(tuple(shp), None, None)
        bshape, bc = [], False
        for a, b in zip(l.shape, r.shape):
            if isinstance(a, int) and a == 1 and not (isinstance(b, int) and b == 1):
                bshape.append(b)
                bc = True
            elif isinstance(b, int) and b == 1 and not (isinstance(a, int) and a == 1):
                bshape.append(a)
                bc = True
            else:
                ex.oblige(st, 'call-pre', 'elementwise-shapes-agree', Z(a) == Z(b), node)
                bshape.append(a)
        if bc:
            used('elementwise operation with NumPy broadcasting of size-1 axes')
            return VArr(tuple(bshape), None, None)
        if isinstance(op, ast.Add) and l.tag in ('mat', 'vec') and r.tag == l.tag and l.t is not None and r.t is not None:
            return VArr(l.shape, T.madd(l.t, r.t), l.tag)
        if isinstance(op, ast.Sub) and l.tag in ('mat', 'vec') and r.tag == l.tag and l.t is not None and r.t is not None:
            return VArr(l.shape, T.madd(l.t, T.smul(-1, r.t)), l.tag)
        return VArr(l.shape, None, None)
    if la and not ra and isinstance(op, (ast.Add, ast.Sub)):
        ex.need_num(st, r, node)
        return VArr(l.shape, None, None)
    if la and not ra and isinstance(op, ast.Pow):
        return VArr(l.shape, None, None)
    raise Unsupported(f'array operation {type(op).__name__} at line {node.lineno}')


def arr_compare(ex, st, op, l, r, node):
    a = l if isinstance(l, VArr) else r
    return VArr(a.shape, None, 'mask', 'b')


def as_mat(v):
    """(term, rows, cols) of a 1-D ('vec': 1 x n) or 2-D abstract array with a denotation."""
    if v.t is None:
        return None
    if v.tag == 'vec':
        return v.t, 1, v.shape[0]
    if v.tag == 'mat':
        return v.t, v.shape[0], v.shape[1]
    return None


def matmul(ex, st, l, r, node):
    used('A @ B -> mm(A, B); requires inner dimensions to agree (1-D left operand = 1 x n row)')
    if not (isinstance(l, VArr) and isinstance(r, VArr)):
        raise Unsupported('@ with non-array operand')
    if l.ndim == 1 and r.ndim == 2:
        ex.oblige(st, 'call-pre', 'matmul-inner-dims-agree', Z(l.shape[0]) == Z(r.shape[0]), node)
        t = T.mm(l.t, r.t) if (l.t is not None and r.t is not None and l.tag == 'vec' and r.tag == 'mat') else None
        return VArr((r.shape[1],), t, 'vec' if t is not None else None)
    if l.ndim == 2 and r.ndim == 2:
        ex.oblige(st, 'call-pre', 'matmul-inner-dims-agree', Z(l.shape[1]) == Z(r.shape[0]), node)
        t = T.mm(l.t, r.t) if (l.t is not None and r.t is not None and l.tag == 'mat' and r.tag == 'mat') else None
        return VArr((l.shape[0], r.shape[1]), t, 'mat' if t is not None else None)
    if l.ndim == 2 and r.ndim == 1:
        ex.oblige(st, 'call-pre', 'matmul-inner-dims-agree', Z(l.shape[1]) == Z(r.shape[0]), node)
        return VArr((l.shape[0],), None, None)
    raise Unsupported(f'@ for ndim {l.ndim} x {r.ndim}')


def mk_core(t):
    return VArr((T.d0(t), T.d1(t), T.d2(t)), t, 'core')


def mk_mat(t):
    return VArr((T.rows(t), T.cols(t)), t, 'mat')


def fresh_like(ex, st, v, name):
    """A fresh value 'of the same type' (loop havoc, callee results)."""
    if v is NONE or isinstance(v, (VFunc, VOpaque, TypeVal, VMap)):
        return v
    if isinstance(v, VSym):
        return VSym(ex.fresh(name, v.term.sort()), v.what)
    if isinstance(v, bool) or isinstance(v, z3.BoolRef):
        return ex.fresh_bool(name)
    if is_intsort(v):
        return ex.fresh_int(name)
    if is_num(v):
        return ex.fresh_real(name)
    if isinstance(v, VStr):
        return VStr(ex.fresh_int(name + '_str'))
    if isinstance(v, VOpt):
        return VOpt(ex.fresh_bool(name + '_none'), fresh_like(ex, st, v.val, name))
    if isinstance(v, VTuple):
        return VTuple([fresh_like(ex, st, x, f'{name}{i}') for i, x in enumerate(v.items)])
    if isinstance(v, VNd):
        t = ex.fresh(name, T.Mat)       # a dense array that is re-shaped to a matrix before any use
        st.assume(T.rows(t) >= 0, T.cols(t) >= 0)
        return mk_mat(t)
    if isinstance(v, VArr):
        if v.tag == 'core':
            return mk_core(ex.fresh(name, T.Core))
        if v.tag == 'mat':
            return mk_mat(ex.fresh(name, T.Mat))
        if v.tag == 'vec':
            t = ex.fresh(name, T.Mat)
            st.assume(T.rows(t) == 1)
            return VArr((T.cols(t),), t, 'vec')
        shp = tuple(ex.fresh_int(f'{name}_dim{i}') for i in range(v.ndim))
        for s_ in shp:
            st.assume(s_ >= 0)
        if v.ndim == 1 and v.tag == 'ivec' and v.t is not None and not callable(v.t):
            return VArr(shp, ex.fresh(name, v.t.sort()), 'ivec', v.dtype)
        if v.ndim == 1 and v.tag == 'rvec' and v.t is not None:
            out = type(v)(shp[0], ex.fresh(name, v.t.sort())) if hasattr(v, 'flags') else VArr(shp, ex.fresh(name, v.t.sort()), 'rvec', v.dtype)
            return out
        return VArr(shp, None, v.tag if v.tag not in ('ivec', 'rvec', 'bvec', 'pt') else None, v.dtype)
    raise Unsupported(f'havoc of {type(v).__name__} ({name})')


def havoc(ex, st, v, name, mutated):
    if isinstance(v, VRef):
        o = st.heap[v.oid]
        if isinstance(o, VRec):
            st.heap[v.oid] = VRec({k: fresh_like(ex, st, x, f'{name}_{k}') for k, x in o.fields.items()})
        elif isinstance(o, VSeq):
            st.heap[v.oid] = VSeq(ex.fresh(name + '_arr', o.arr.sort()), ex.fresh_int(name + '_len'), o.wrap, o.tag, getattr(o, 'unwrap', None))
            st.assume(st.heap[v.oid].n >= 0)
        elif isinstance(o, VMap):
            pass
        elif isinstance(o, VList):
            if len(o.items) == 0:
                raise ContractMismatch(f'list {name} grows in a loop: the contract must bind it to a symbolic sequence '
                                       f'(type hint)')
            st.heap[v.oid] = VList([fresh_like(ex, st, x, f'{name}{i}') for i, x in enumerate(o.items)])
        return v
    return fresh_like(ex, st, v, name)


# ----------------------------------------------------------------------------------------------
# attribute / subscript / store / unpack / method

def attribute(ex, st, v, attr, node):
    if isinstance(v, VRec):                      # `self.<attr>`: the object is a record of its attributes / cached properties
        if attr not in v.fields:
            raise Unsupported(f'attribute .{attr} of the object is not part of the contract case (line {node.lineno})')
        out = v.fields[attr]
        if isinstance(out, VArr):
            out.shared = True
        return out
    if isinstance(v, VNd) and attr == 'shape':
        return v.shape_ref
    if isinstance(v, VArr):
        if attr == 'shape':
            used('ndarray.shape')
            return VTuple(list(v.shape))
        if attr == 'ndim':
            return v.ndim
        if attr == 'size':
            s = v.shape[0]
            for x in v.shape[1:]:
                s = nl_mul(ex, st, s, x, node) if not (isinstance(s, int) and isinstance(x, int)) else s * x
            return s
        if attr == 'T':
            used('ndarray.T -> tr')
            if v.ndim == 2:
                return VArr((v.shape[1], v.shape[0]), T.tr(v.t) if v.t is not None and v.tag == 'mat' else None,
                            'mat' if v.t is not None and v.tag == 'mat' else None)
            if v.ndim == 1:
                return v
        if attr == 'dtype':
            return TypeVal({'f': 'float', 'i': 'int', 'b': 'bool'}.get(v.dtype, 'float'))
    raise Unsupported(f'attribute .{attr} of {type(v).__name__} at line {node.lineno}')


def norm_index(ex, st, idx, n, node, what='index', allow_neg=True):
    """Python/NumPy index normalisation with a range obligation; returns the non-negative index."""
    if isinstance(idx, int):
        if idx < 0:
            ex.oblige(st, 'safety', f'{what}-in-range', Z(n) + idx >= 0, node)
            return Z(n) + idx if not isinstance(n, int) else n + idx
        ex.oblige(st, 'safety', f'{what}-in-range', idx < Z(n), node)
        return idx
    i = Z(idx)
    ex.oblige(st, 'safety', f'{what}-in-range', z3.And(i >= -Z(n) if allow_neg else i >= 0, i < Z(n)), node)
    nonneg = z3.simplify(i >= 0)
    if z3.is_true(nonneg):
        return i
    if quick_unsat(list(ex.axioms) + list(st.pc) + [i < 0]):
        return i
    return z3.If(i >= 0, i, i + Z(n))


def slice_parts(ex, st, sl_, n, node):
    """(lo, hi) of a step-1 slice applied to a length n (None bounds filled in, negative bounds normalised)."""
    if sl_.step is not None:
        stp = ex.ev(sl_.step, st)
        if stp != 1:
            return None
    lo = 0 if sl_.lower is None else ex.need_num(st, ex.ev(sl_.lower, st), node)
    hi = n if sl_.upper is None else ex.need_num(st, ex.ev(sl_.upper, st), node)
    if isinstance(lo, int) and lo < 0:
        lo = n + lo
    if isinstance(hi, int) and hi < 0:
        hi = n + hi
    return lo, hi


def subscript(ex, st, base, sl_, node):
    b = st.deref(base)
    if isinstance(b, VMap):
        return ex.fresh_real('cached')
    if isinstance(b, VOpt):
        ex.oblige(st, 'safety', 'subscripted-value-not-None', z3.Not(b.isnone), node)
        b = st.deref(b.val)
    if isinstance(b, VRec):
        key = ex.ev(sl_, st)
        k = key.concrete() if isinstance(key, VStr) else None
        if k is None:
            raise Unsupported('dict access with a non-literal key')
        if k not in b.fields:
            ex.oblige(st, 'safety', f'key-present[{k}]', False, node)
            return VOpaque('missing')
        return b.fields[k]
    if isinstance(b, VTuple):
        if isinstance(sl_, ast.Slice):
            lohi = slice_parts(ex, st, sl_, len(b.items), node)
            if lohi and all(isinstance(x, int) for x in lohi):
                return VTuple(b.items[lohi[0]:lohi[1]])
            raise Unsupported('symbolic slice of a tuple')
        i = ex.need_num(st, ex.ev(sl_, st), node)
        if isinstance(i, int):
            if not -len(b.items) <= i < len(b.items):
                ex.oblige(st, 'safety', 'tuple-index-in-range', False, node)
                return VOpaque('oob')
            return b.items[i]
        raise Unsupported('symbolic index into a tuple')
    if isinstance(b, VList):
        if isinstance(sl_, ast.Slice):
            lohi = slice_parts(ex, st, sl_, len(b.items), node)
            if lohi and all(isinstance(x, int) for x in lohi):
                return st.alloc(VList(b.items[lohi[0]:lohi[1]]))
            raise Unsupported('symbolic slice of a concrete list')
        i = ex.need_num(st, ex.ev(sl_, st), node)
        if isinstance(i, int):
            if not -len(b.items) <= i < len(b.items):
                ex.oblige(st, 'safety', 'list-index-in-range', False, node)
                return VOpaque('oob')
            return b.items[i]
        ex.oblige(st, 'safety', 'list-index-in-range', z3.And(Z(i) >= 0, Z(i) < len(b.items)), node)
        for pos in range(len(b.items) - 1):
            if ex.decide(st, Z(i) == pos, node):
                return b.items[pos]
        return b.items[-1]
    if isinstance(b, VSeq):
        if isinstance(sl_, ast.Slice):
            lohi = slice_parts(ex, st, sl_, b.n, node)
            if lohi is None:
                raise Unsupported('stepped slice of a sequence')
            lo, hi = lohi
            used('list[lo:hi] -> shifted sequence of length hi-lo (requires 0 <= lo <= hi <= len)')
            ex.oblige(st, 'restriction', 'slice-in-range', z3.And(Z(lo) >= 0, Z(lo) <= Z(hi), Z(hi) <= b.n), node)
            k = z3.Int('k!s')
            arr = ex.fresh('slice', b.arr.sort())
            st.assume(z3.ForAll([k], arr[k] == b.arr[k + Z(lo)], patterns=[arr[k]]))
            return st.alloc(VSeq(arr, Z(hi) - Z(lo), b.wrap, b.tag, getattr(b, 'unwrap', None)))
        i = ex.need_num(st, ex.ev(sl_, st), node)
        i = norm_index(ex, st, i, b.n, node, 'list-index')
        return b.get(Z(i))
    if isinstance(b, VArr):
        return arr_index(ex, st, b, sl_, node)
    raise Unsupported(f'subscript of {type(b).__name__} at line {node.lineno}')


def arr_index(ex, st, a, sl_, node):
    elts = sl_.elts if isinstance(sl_, ast.Tuple) else [sl_]
    full = lambda e: isinstance(e, ast.Slice) and e.lower is None and e.upper is None and e.step is None
    # shape vectors (1-D int arrays): element and slice access
    if a.ndim == 1 and len(elts) == 1:
        e = elts[0]
        if isinstance(e, ast.Slice):
            lohi = slice_parts(ex, st, e, a.shape[0], node)
            if lohi is None:
                used('v[::-1] -> reversed vector (same length)')
                return VArr(a.shape, None, a.tag if a.tag != 'vec' else None, a.dtype)
            lo, hi = lohi
            ex.oblige(st, 'restriction', 'slice-in-range', z3.And(Z(lo) >= 0, Z(lo) <= Z(hi), Z(hi) <= Z(a.shape[0])), node)
            if a.tag == 'ivec' and a.t is not None:
                k = z3.Int('k!s')
                arr = ex.fresh('vslice', a.t.sort())
                st.assume(z3.ForAll([k], arr[k] == a.t[k + Z(lo)], patterns=[arr[k]]))
                return VArr((Z(hi) - Z(lo),), arr, 'ivec', a.dtype)
            return VArr((Z(hi) - Z(lo),), None, None, a.dtype)
        iv = ex.ev(e, st)
        if isinstance(st.deref(iv), VArr):
            m = st.deref(iv)
            if m.dtype == 'b':
                n_ = ex.fresh_int('nsel')
                st.assume(n_ >= 0, n_ <= Z(a.shape[0]))
                return VArr((n_,), None, None, a.dtype)
            return VArr(m.shape, None, None, a.dtype)
        i = norm_index(ex, st, ex.need_num(st, iv, node), a.shape[0], node, 'array-index')
        if a.tag == 'ivec' and a.t is not None:
            return a.t[Z(i)]
        if a.tag == 'vec' and a.t is not None:
            used('v[i] of a 1-D array -> ent(v, 0, i)')
            return T.ent(a.t, 0, Z(i))
        return ex.fresh_real('elem') if a.dtype == 'f' else ex.fresh_int('elem')
    if a.ndim == 3 and len(elts) == 3 and full(elts[0]) and full(elts[2]) and not isinstance(elts[1], ast.Slice):
        jv = st.deref(ex.ev(elts[1], st))
        if isinstance(jv, VArr):
            # G[:, I, :] with an index array: gather
            used('G[:, I, :] with an integer array I -> shape (r1,) + I.shape + (r2,)')
            return VArr((a.shape[0],) + jv.shape + (a.shape[2],), None, None)
        j = norm_index(ex, st, ex.need_num(st, jv, node), a.shape[1], node, 'mode-index')
        used('G[:, j, :] -> sl(G, j)')
        t = T.sl(a.t, Z(j)) if a.tag == 'core' and a.t is not None else None
        return VArr((a.shape[0], a.shape[2]), t, 'mat' if t is not None else None)
    if a.ndim == 3 and len(elts) == 3 and full(elts[2]) and not isinstance(elts[0], ast.Slice) \
            and not isinstance(elts[1], ast.Slice):
        r0 = ex.need_num(st, ex.ev(elts[0], st), node)
        jv = st.deref(ex.ev(elts[1], st))
        if isinstance(jv, VArr):
            used('G[0, I, :] with an integer array I -> shape I.shape + (r2,)')
            ex.oblige(st, 'safety', 'row-index-in-range', Z(r0) < Z(a.shape[0]), node)
            return VArr(jv.shape + (a.shape[2],), None, None)
        r0 = norm_index(ex, st, r0, a.shape[0], node, 'row-index')
        j = norm_index(ex, st, ex.need_num(st, jv, node), a.shape[1], node, 'mode-index')
        used('G[a, j, :] -> row(sl(G, j), a) as a 1-D array')
        t = T.row(T.sl(a.t, Z(j)), Z(r0)) if a.tag == 'core' and a.t is not None else None
        return VArr((a.shape[2],), t, 'vec' if t is not None else None)
    if a.ndim == 2 and len(elts) == 2:
        e0, e1 = elts
        if not isinstance(e0, ast.Slice) and not isinstance(e1, ast.Slice):
            i = norm_index(ex, st, ex.need_num(st, ex.ev(e0, st), node), a.shape[0], node, 'row-index')
            j = norm_index(ex, st, ex.need_num(st, ex.ev(e1, st), node), a.shape[1], node, 'col-index')
            if a.tag == 'mat' and a.t is not None:
                return T.ent(a.t, Z(i), Z(j))
            return ex.fresh_real('elem')
        dims = []
        for e, n in zip((e0, e1), a.shape):
            if isinstance(e, ast.Slice):
                lohi = slice_parts(ex, st, e, n, node)
                if lohi is None:
                    raise Unsupported('stepped 2-D slice')
                lo, hi = lohi
                used('A[lo:hi, ...] -> NumPy clips slice bounds to the axis length')
                if isinstance(lo, int) and lo == 0 and hi is n:
                    dims.append(n)
                else:
                    hi_c = z3.If(Z(hi) > Z(n), Z(n), Z(hi))
                    lo_c = z3.If(Z(lo) > Z(n), Z(n), Z(lo))
                    dims.append(z3.If(hi_c - lo_c >= 0, hi_c - lo_c, 0))
            else:
                iv = st.deref(ex.ev(e, st))
                if isinstance(iv, VArr):
                    dims.append(iv.shape[0])
                else:
                    norm_index(ex, st, ex.need_num(st, iv, node), n, node, 'array-index')
                    dims.append(None)
        shp = tuple(d for d in dims if d is not None)
        return VArr(shp, None, None, a.dtype)
    if a.ndim == 2 and len(elts) == 1 and not isinstance(elts[0], ast.Slice):
        iv = st.deref(ex.ev(elts[0], st))
        if isinstance(iv, VArr):
            return VArr(iv.shape + (a.shape[1],), None, None, a.dtype)
        i = norm_index(ex, st, ex.need_num(st, iv, node), a.shape[0], node, 'row-index')
        t = T.row(a.t, Z(i)) if a.tag == 'mat' and a.t is not None else None
        return VArr((a.shape[1],), t, 'vec' if t is not None else None, a.dtype)
    raise Unsupported(f'array indexing pattern `{ast.unparse(sl_)}` on ndim {a.ndim} at line {node.lineno}')


def store(ex, st, base, sl_, v, node, base_node):
    b = st.deref(base)
    if isinstance(b, VOpaque):
        used('x[...] = v on an opaque array -> stays opaque')
        return
    if isinstance(b, VMap):
        ex.ev(sl_, st)
        b.writes += 1
        return
    if isinstance(b, VRec):
        key = ex.ev(sl_, st)
        k = key.concrete() if isinstance(key, VStr) else None
        if k is None:
            raise Unsupported('dict store with non-literal key')
        b.fields[k] = v
        return
    if isinstance(b, VList):
        i = ex.need_num(st, ex.ev(sl_, st), node)
        if isinstance(i, int) and -len(b.items) <= i < len(b.items):
            b.items[i] = v
            return
        raise Unsupported('symbolic store into a concrete list')
    if isinstance(b, VSeq):
        i = ex.need_num(st, ex.ev(sl_, st), node)
        i = norm_index(ex, st, i, b.n, node, 'list-index')
        used('list[i] = x -> store (fresh array constant named, requires index in range)')
        newarr = ex.fresh('upd', b.arr.sort())
        val = unwrap_elem(ex, st, b, v, node)
        st.assume(newarr == z3.Store(b.arr, Z(i), val))
        b.arr = newarr
        return
    if isinstance(b, VArr):
        # element / slice assignment into an array: the variable is rebound to a fresh array of the same shape
        used('A[...] = x -> in-place write modelled as rebinding the target to a fresh array of the same shape')
        if isinstance(base_node, ast.Name):
            ex.ev(sl_, st) if not isinstance(sl_, (ast.Tuple, ast.Slice)) else None
            st.vars[base_node.id] = VArr(b.shape, None, None, b.dtype)
            return
    raise Unsupported(f'store into {type(b).__name__} at line {node.lineno}')


def arr_setitem(ex, st, b, sl_, v, node):
    """Functional form of `A[idx] = v` for the patterns that have a denotation; None -> fall back to `store`."""
    if isinstance(b, VArr) and b.ndim == 3 and b.tag == 'core' and b.t is not None and isinstance(sl_, ast.Tuple) \
            and len(sl_.elts) == 3 and not isinstance(sl_.elts[0], ast.Slice) and not isinstance(sl_.elts[2], ast.Slice) \
            and isinstance(sl_.elts[1], ast.Slice) and sl_.elts[1].lower is None and sl_.elts[1].upper is None and sl_.elts[1].step is None:
        a0 = norm_index(ex, st, ex.need_num(st, ex.ev(sl_.elts[0], st), node), b.shape[0], node, 'row-index')
        b0 = norm_index(ex, st, ex.need_num(st, ex.ev(sl_.elts[2], st), node), b.shape[2], node, 'col-index')
        val = st.deref(v)
        used('G[a, :, b] = w (scalar or vector of length n) -> cput(G, a, b, w)')
        if isinstance(val, VArr) and val.ndim == 1 and val.t is not None and val.tag == 'rvec':
            ex.oblige(st, 'call-pre', 'fibre-assignment-length-matches', Z(val.shape[0]) == Z(b.shape[1]), node)
            w = val.t
        elif is_num(val):
            w = z3.K(z3.IntSort(), to_real(val))
        else:
            raise Unsupported('fibre assignment of this value')
        return VArr(b.shape, T.cput(b.t, Z(a0), Z(b0), w), 'core')
    if isinstance(b, VArr) and b.ndim == 3 and b.tag == 'core' and b.t is not None and isinstance(sl_, ast.Tuple) \
            and len(sl_.elts) == 3 and not any(isinstance(e, ast.Slice) for e in sl_.elts):
        i0 = ex.ev(sl_.elts[0], st)
        i2 = ex.ev(sl_.elts[2], st)
        if i0 == 0 and i2 == 0:
            used('G[0, j, 0] = x on a core with r1 = r2 = 1 -> cset(G, j, x)')
            ex.oblige(st, 'call-pre', 'element-store-on-a-rank-one-core', z3.And(Z(b.shape[0]) == 1, Z(b.shape[2]) == 1), node)
            j = norm_index(ex, st, ex.need_num(st, ex.ev(sl_.elts[1], st), node), b.shape[1], node, 'mode-index')
            x = to_real(ex.need_num(st, v, node))
            return VArr(b.shape, T.cset(b.t, Z(j), x), 'core')
    return None


def unwrap_elem(ex, st, seq, v, node):
    """z3 term for storing value v into sequence seq."""
    if getattr(seq, 'unwrap', None) is not None:          # sequence kind defined by a sidecar contract (wrap / unwrap pair)
        return seq.unwrap(ex, st, v, node)
    if seq.tag == 'core':
        v = st.deref(v)
        if isinstance(v, VArr) and v.ndim == 3:
            if v.t is None or v.tag != 'core':
                t = ex.fresh('core', T.Core)
                st.assume(T.d0(t) == Z(v.shape[0]), T.d1(t) == Z(v.shape[1]), T.d2(t) == Z(v.shape[2]))
                return t
            return v.t
        if isinstance(v, VOpaque) and ex.lenient:
            used('an opaque value is stored into a TT list -> some core, nothing known about it (lenient tier)')
            return ex.fresh('core', T.Core)          # lenient tier: some core, nothing known about it
        raise Unsupported('storing a non-3-D value into a TT list')
    if seq.tag == 'int':
        return Z(ex.need_num(st, v, node))
    if seq.tag == 'optarr':
        v = st.deref(v)
        if v is NONE:
            return z3.IntVal(0)
        if isinstance(v, (VArr, VOpaque)):
            c = ex.fresh_int('arrcode')
            st.assume(c != 0)
            if isinstance(v, VArr) and v.ndim == 2:
                st.assume(OROWS(c) == Z(v.shape[0]), OCOLS(c) == Z(v.shape[1]))
            return c
        if isinstance(v, VOpt):
            c = ex.fresh_int('arrcode')
            st.assume((c == 0) == v.isnone)
            w = st.deref(v.val)
            if isinstance(w, VArr) and w.ndim == 2:
                st.assume(z3.Implies(c != 0, z3.And(OROWS(c) == Z(w.shape[0]), OCOLS(c) == Z(w.shape[1]))))
            return c
    if seq.tag == 'opaque':
        return ex.fresh_int('elem')
    if seq.tag == 'real':
        v = st.deref(v)
        if isinstance(v, VArr) and v.tag == 'pt':
            return to_real(v.t)
        return to_real(ex.need_num(st, v, node))
    raise Unsupported(f'store into sequence of kind {seq.tag}')


def unpack(ex, st, v, n, node):
    v = st.deref(v)
    if isinstance(v, VTuple):
        if len(v.items) != n:
            ex.oblige(st, 'safety', 'unpack-arity', False, node)
        return v.items
    if isinstance(v, VList):
        if len(v.items) != n:
            ex.oblige(st, 'safety', 'unpack-arity', False, node)
        return v.items
    if isinstance(v, VArr) and v.ndim == 1:
        ex.oblige(st, 'safety', 'unpack-arity', Z(v.shape[0]) == n, node)
        if v.tag == 'ivec' and v.t is not None:
            return [v.t[z3.IntVal(i)] for i in range(n)]
        return [ex.fresh_real('u') for _ in range(n)]
    raise Unsupported(f'unpacking {type(v).__name__} at line {node.lineno}')


def method(ex, st, recv, name, args, kwargs, node):
    r = st.deref(recv)
    if isinstance(r, VOpt):
        ex.oblige(st, 'safety', 'receiver-not-None', z3.Not(r.isnone), node)
        r = st.deref(r.val)
    if isinstance(r, VRec) and name == 'update':
        src = st.deref(args[0])
        if not isinstance(src, VRec):
            raise Unsupported('dict.update with a non-literal dict')
        r.fields.update(src.fields)
        return NONE
    if isinstance(r, (VList, VSeq)) and name == 'append':
        if isinstance(r, VList):
            r.items.append(args[0])
        else:
            used('list.append(x) -> store at index len, len + 1')
            newarr = ex.fresh('app', r.arr.sort())
            st.assume(newarr == z3.Store(r.arr, r.n, unwrap_elem(ex, st, r, args[0], node)))
            r.arr, r.n = newarr, r.n + 1
        return NONE
    if isinstance(r, VList) and name == 'extend':
        o = st.deref(args[0])
        if isinstance(o, VList):
            r.items.extend(o.items)
            return NONE
    if isinstance(r, VSeq) and name == 'extend':
        o = st.deref(args[0])
        if isinstance(o, VSeq) and o.tag == r.tag:
            used('list.extend(other) -> concatenation of sequences')
            k = z3.Int('k!e')
            newarr = ex.fresh('ext', r.arr.sort())
            st.assume(z3.ForAll([k], newarr[k] == z3.If(k < r.n, r.arr[k], o.arr[k - r.n]), patterns=[newarr[k]]))
            r.arr, r.n = newarr, r.n + o.n
            return NONE
    if isinstance(r, VNd):
        if name == 'copy':
            used('ndarray.copy() -> same value, fresh buffer')
            return r
        if name == 'reshape' and len(args) == 2 and args[1] == -1:
            used('X.reshape(a, -1) of a non-empty array -> matrix with a rows and >= 1 columns (size compatibility of the reshape is not modelled)')
            t = ex.fresh('Zmat', T.Mat)
            st.assume(T.rows(t) == Z(ex.need_num(st, args[0], node)), T.cols(t) >= 1)
            return mk_mat(t)
    if isinstance(r, VArr):
        if name == 'reshape' and r.ndim == 2 and len(args) == 2 and args[1] == -1:
            used('X.reshape(a, -1) of a non-empty array -> matrix with a rows and >= 1 columns (size compatibility of the reshape is not modelled)')
            t = ex.fresh('Zmat', T.Mat)
            st.assume(T.rows(t) == Z(ex.need_num(st, args[0], node)), T.cols(t) >= 1)
            st.ghost.setdefault('reshaped', []).append((r, t))
            return mk_mat(t)
        if name == 'copy':
            used('ndarray.copy() -> same value, fresh buffer')
            return r
        if name == 'item':
            used('ndarray.item() -> the single element (requires size 1)')
            for s_ in r.shape:
                ex.oblige(st, 'call-pre', 'item-size-1', Z(s_) == 1, node)
            if r.t is not None and r.tag in ('mat', 'vec'):
                return T.ent(r.t, 0, 0)
            return ex.fresh_real('item')
        if name == 'reshape':
            shp = args[0] if len(args) == 1 else VTuple(args)
            return reshape(ex, st, r, shp, kwargs.get('order', VStr('C')), node)
        if name in ('max', 'min', 'sum', 'mean') and not args:
            return ex.fresh_real(name)
    if isinstance(r, VStr) and name == 'startswith':
        c = r.concrete()
        a = args[0].concrete() if isinstance(args[0], VStr) else None
        if c is not None and a is not None:
            return c.startswith(a)
        raise Unsupported('startswith on a symbolic string')
    raise Unsupported(f'method .{name} on {type(r).__name__} at line {node.lineno}')


def try_stmt(ex, st, s):
    raise Unsupported('try statement')


# ----------------------------------------------------------------------------------------------
# iteration

class Iteration:
    def __init__(self, n=None, bind=None, concrete=None):
        self.n, self.bind, self.concrete = n, bind, concrete


def _iter_of_value(ex, st, v, node):
    """(n, elem(j)) for iterating over a value."""
    v = st.deref(v)
    if isinstance(v, VList):
        return len(v.items), (lambda j, v=v: v.items[j]), True
    if isinstance(v, VTuple):
        return len(v.items), (lambda j, v=v: v.items[j]), True
    if isinstance(v, VSeq):
        return v.n, (lambda j, v=v: v.get(j)), False
    if isinstance(v, VArr) and v.ndim == 1:
        if v.tag == 'ivec' and v.t is not None:
            return Z(v.shape[0]), (lambda j, v=v: v.t[j]), False
        return Z(v.shape[0]), (lambda j: ex.fresh_real('it')), False
    if isinstance(v, VArr) and v.ndim == 2:
        return Z(v.shape[0]), (lambda j, v=v: VArr((v.shape[1],), None, None, v.dtype)), False
    if isinstance(v, VOpt):
        ex.oblige(st, 'safety', 'iterated-value-not-None', z3.Not(v.isnone), node)
        return _iter_of_value(ex, st, v.val, node)
    if isinstance(v, VOpaque) and ex.lenient:
        n = ex.fresh_int('niter')
        st.assume(n >= 0)
        return n, (lambda j: VOpaque('elem')), False
    if isinstance(v, Iteration):
        return v.n, v.bind, v.concrete is not None
    raise Unsupported(f'iteration over {type(v).__name__} at line {node.lineno}')


def iteration(ex, st, it, node):
    if isinstance(it, ast.IfExp):        # for x in (A if flag else B): decide the flag, iterate over the chosen iterable
        c = ex.decide(st, ex.truth(st, ex.ev(it.test, st), node), node)
        return iteration(ex, st, it.body if c else it.orelse, node)
    if isinstance(it, ast.Call):
        fn = ast.unparse(it.func)
        if fn == 'range':
            a = [ex.need_num(st, ex.ev(x, st), node) for x in it.args]
            if all(isinstance(x, int) for x in a):
                return Iteration(concrete=list(range(*a)))
            if len(a) == 1:
                lo, hi, step = 0, a[0], 1
            elif len(a) == 2:
                lo, hi, step = a[0], a[1], 1
            else:
                lo, hi, step = a
            if step == 1:
                n = z3.If(Z(hi) - Z(lo) >= 0, Z(hi) - Z(lo), 0)
                return Iteration(n=z3.simplify(n), bind=lambda ex_, st_, j: Z(lo) + j)
            if step == -1:
                n = z3.If(Z(lo) - Z(hi) >= 0, Z(lo) - Z(hi), 0)
                return Iteration(n=z3.simplify(n), bind=lambda ex_, st_, j: Z(lo) - j)
            raise Unsupported('range with a step other than +-1')
        if fn in ('zip', 'enumerate'):
            if fn == 'enumerate':
                if len(it.args) != 1 or it.keywords:
                    raise Unsupported('enumerate with a start value')
                inner = iteration(ex, st, it.args[0], node)
                if inner.concrete is not None:
                    return Iteration(concrete=[VTuple([i, b]) for i, b in enumerate(inner.concrete)])
                return Iteration(n=inner.n, bind=lambda ex_, st_, j: VTuple([j, inner.bind(ex_, st_, j)]))
            parts = [iteration(ex, st, a_, node) for a_ in it.args]
            if all(p.concrete is not None for p in parts):
                return Iteration(concrete=[VTuple(list(t)) for t in zip(*[p.concrete for p in parts])])
            # zip stops at the shortest: n = min of the lengths
            ns = [Z(len(p.concrete)) if p.concrete is not None else p.n for p in parts]
            n = ns[0]
            for x in ns[1:]:
                n = z3.If(x < n, x, n)
            def bind(ex_, st_, j, parts=parts):
                out = []
                for p in parts:
                    if p.concrete is not None:
                        raise Unsupported('zip of concrete and symbolic iterables')
                    out.append(p.bind(ex_, st_, j))
                return VTuple(out)
            return Iteration(n=z3.simplify(n), bind=bind)
    v = ex.ev(it, st)
    n, elem, conc = _iter_of_value(ex, st, v, node)
    if conc:
        return Iteration(concrete=[elem(j) for j in range(n)])
    return Iteration(n=n, bind=lambda ex_, st_, j: elem(j))


OROWS = z3.Function('orows', z3.IntSort(), z3.IntSort())     # number of rows / columns of the 2-D array behind a non-zero code
OCOLS = z3.Function('ocols', z3.IntSort(), z3.IntSort())


def _optarr_wrap(t):
    """Element of a list of optional arrays: code 0 = None, anything else = some 2-D array of which only the shape
    (orows(code), ocols(code)) is known."""
    return VOpt(t == 0, VArr((OROWS(t), OCOLS(t)), None, None, None, 'element of a list of optional arrays'))


def optarr_rows(code):
    """Row count as the library reads it: `I.shape[0] if I is not None else 1`."""
    return z3.If(code == 0, 1, OROWS(code))


def _mentions(f, c):
    stack, seen = [f], set()
    while stack:
        t = stack.pop()
        if t.get_id() in seen:
            continue
        seen.add(t.get_id())
        if z3.is_const(t) and t.get_id() == c.get_id():
            return True
        if z3.is_app(t):
            stack.extend(t.children())
        elif z3.is_quantifier(t):
            stack.append(t.body())
    return False


def listcomp(ex, st, e):
    if len(e.generators) != 1:
        raise Unsupported('list comprehension with several generators')
    g = e.generators[0]
    it = iteration(ex, st, g.iter, e)
    if g.ifs:
        # [x for x in rows if cond(x)]: an order-preserving sub-sequence of unknown length 0..n
        if it.concrete is not None or not (isinstance(e.elt, ast.Name) and isinstance(g.target, ast.Name)
                                           and e.elt.id == g.target.id) or not all(ex._pure(c) for c in g.ifs):
            raise Unsupported('filtered list comprehension pattern')
        used('[x for x in rows if cond(x)] -> sub-sequence with 0 <= length <= len(rows)')
        n_new = ex.fresh_int('nsel')
        st.assume(n_new >= 0, n_new <= it.n)
        sample = it.bind(ex, st, z3.IntVal(0))
        st.ghost.setdefault('filtered', []).append((it.n, n_new))
        if isinstance(sample, VArr) and sample.ndim == 1:
            return st.alloc(VSeq(ex.fresh('rows', z3.ArraySort(z3.IntSort(), z3.IntSort())), n_new,
                                 lambda t, w=sample.shape[0], dt=sample.dtype: VArr((w,), None, None, dt), tag='rows'))
        raise Unsupported('filtered list comprehension over this element type')
    saved = dict(st.vars)
    try:
        if it.concrete is not None:
            out = []
            for b in it.concrete:
                ex.assign(g.target, b, st)
                out.append(ex.ev(e.elt, st))
            return st.alloc(VList(out))
        # symbolic length: the element expression evaluated at a generic index defines the sequence
        j = ex.fresh_int('lc')
        mark = len(st.pc)
        st.pc.append(z3.And(j >= 0, j < it.n))
        ex.assign(g.target, it.bind(ex, st, j), st)
        elt = ex.ev(e.elt, st)
        _guard, _added = st.pc[mark], st.pc[mark + 1:]
        del st.pc[mark:]
        for _f in _added:
            # definitions of fresh symbols that do not depend on the generic position stay as they are; everything else
            # (assumed obligations, facts about the generic element) stays guarded by 0 <= j < n
            if _f.get_id() not in st.assumed and not _mentions(_f, j):
                st.pc.append(_f)
            else:
                st.pc.append(z3.Implies(_guard, _f))
        used('[expr for x in seq] -> sequence of the same length with expr at a generic index')
        # Symbols created while the element was evaluated (results of draws, of callees, of opaque NumPy calls ...) stand for ONE
        # element; stating `arr[j] == elt` for all j with such a symbol inside would make all elements equal.  Terms that mention
        # them are not generalised over j (the sequence then only gets what is independent of them).
        _cnt_j = int(str(j).rsplit('!', 1)[1])

        def _per_element(t):
            stack, seen = [Z(t)] if not isinstance(t, (int, float, bool)) else [], set()
            while stack:
                u = stack.pop()
                if u.get_id() in seen:
                    continue
                seen.add(u.get_id())
                if z3.is_const(u) and u.decl().kind() == z3.Z3_OP_UNINTERPRETED:
                    nm = u.decl().name()
                    if '!' in nm and nm.rsplit('!', 1)[1].isdigit() and int(nm.rsplit('!', 1)[1]) > _cnt_j:
                        return True
                if z3.is_app(u):
                    stack.extend(u.children())
                elif z3.is_quantifier(u):
                    stack.append(u.body())
            return False
        if elt is NONE:
            return st.alloc(VSeq(z3.K(z3.IntSort(), z3.IntVal(0)), it.n, _optarr_wrap, tag='optarr'))
        if isinstance(elt, VOpaque):
            return st.alloc(VSeq(ex.fresh('lc', z3.ArraySort(z3.IntSort(), z3.IntSort())), it.n,
                                 lambda t: VOpaque('elem'), tag='opaque'))
        if is_intsort(elt):
            arr = ex.fresh('lc', z3.ArraySort(z3.IntSort(), z3.IntSort()))
            if not _per_element(elt):
                st.assume(z3.ForAll([j], z3.Implies(z3.And(j >= 0, j < it.n), arr[j] == Z(elt)), patterns=[arr[j]]))
            return st.alloc(VSeq(arr, it.n, lambda t: t, tag='int'))
        if is_num(elt) and not is_intsort(elt):
            arr = ex.fresh('lc', z3.ArraySort(z3.IntSort(), z3.RealSort()))
            return st.alloc(VSeq(arr, it.n, lambda t: t, tag='real'))
        if isinstance(elt, VArr) and elt.ndim == 2:
            # list of matrices of which only the shapes matter (cross: Ig): codes of a list of (optional) arrays
            arr = ex.fresh('lc', z3.ArraySort(z3.IntSort(), z3.IntSort()))
            facts = [arr[j] != 0] + [f(arr[j]) == Z(sh) for f, sh in ((OROWS, elt.shape[0]), (OCOLS, elt.shape[1])) if not _per_element(sh)]
            st.assume(z3.ForAll([j], z3.Implies(z3.And(j >= 0, j < it.n), z3.And(*facts)), patterns=[arr[j]]))
            return st.alloc(VSeq(arr, it.n, _optarr_wrap, tag='optarr'))
        if isinstance(elt, VArr) and elt.ndim == 3:
            arr = ex.fresh('lc', T.TT)
            if elt.t is not None and elt.tag == 'core' and not _per_element(elt.t):
                st.assume(z3.ForAll([j], z3.Implies(z3.And(j >= 0, j < it.n), arr[j] == elt.t), patterns=[arr[j]]))
            else:
                facts = [f(arr[j]) == Z(sh) for f, sh in ((T.d0, elt.shape[0]), (T.d1, elt.shape[1]), (T.d2, elt.shape[2])) if not _per_element(sh)]
                if facts:
                    st.assume(z3.ForAll([j], z3.Implies(z3.And(j >= 0, j < it.n), z3.And(*facts)), patterns=[arr[j]]))
            return st.alloc(VSeq(arr, it.n, mk_core, tag='core'))
        raise Unsupported('list comprehension element type')
    finally:
        for k in list(st.vars):
            if k not in saved:
                del st.vars[k]
            else:
                st.vars[k] = saved[k]


# ----------------------------------------------------------------------------------------------
# builtins

@model('len')
def m_len(ex, st, args, kwargs, node):
    v = st.deref(args[0])
    if isinstance(v, VOpt):
        ex.oblige(st, 'safety', 'len-of-not-None', z3.Not(v.isnone), node)
        v = st.deref(v.val)
    if isinstance(v, (VList, VTuple)):
        return len(v.items)
    if isinstance(v, VSeq):
        return v.n
    if isinstance(v, VArr):
        if v.ndim == 0:
            ex.oblige(st, 'safety', 'len-of-0d-array', False, node)
        return v.shape[0]
    if isinstance(v, VRec):
        return len(v.fields)
    raise Unsupported(f'len of {type(v).__name__}')


@model('int')
def m_int(ex, st, args, kwargs, node):
    v = ex.need_num(st, args[0], node, 'int()-argument')
    if isinstance(v, (int, float)):
        return int(v)
    if is_intsort(v):
        return v
    used('int(x) -> truncation toward zero')
    return z3.If(v >= 0, z3.ToInt(v), -z3.ToInt(-v))


@model('float')
def m_float(ex, st, args, kwargs, node):
    v = ex.need_num(st, args[0], node, 'float()-argument')
    return float(v) if isinstance(v, (int, float)) else to_real(v)


@model('bool')
def m_bool(ex, st, args, kwargs, node):
    return ex.truth(st, args[0], node)


@model('abs', 'np.abs')
def m_abs(ex, st, args, kwargs, node):
    v = st.deref(args[0])
    if isinstance(v, VArr):
        return VArr(v.shape, None, 'abs:' + str(v.t) if False else None, v.dtype, note=('abs', v))
    v = ex.need_num(st, v, node)
    if isinstance(v, (int, float)):
        return abs(v)
    return z3.If(Z(v) >= 0, Z(v), -Z(v))


def _minmax(ismin):
    def h(ex, st, args, kwargs, node):
        if len(args) == 1:
            raise Unsupported('min/max of an iterable')
        vals = [ex.need_num(st, a, node) for a in args]
        if all(isinstance(v, (int, float)) for v in vals):
            return min(vals) if ismin else max(vals)
        cur = Z(vals[0])
        for v in vals[1:]:
            v = Z(v)
            if cur.sort() != v.sort():
                cur, v = to_real(cur), to_real(v)
            # Python's min/max return the first of equal arguments
            cur = z3.If(v < cur, v, cur) if ismin else z3.If(v > cur, v, cur)
        return cur
    return h


FUNCS['min'] = _minmax(True)
FUNCS['max'] = _minmax(False)


@model('isinstance')
def m_isinstance(ex, st, args, kwargs, node):
    v, ty = st.deref(args[0]), args[1]
    names = [t.name for t in ty.items] if isinstance(ty, VTuple) else [ty.name]
    names = set(names)
    if isinstance(v, VOpt):
        inner = m_isinstance(ex, st, [v.val, args[1]], kwargs, node)
        return z3.And(z3.Not(v.isnone), Z(inner))
    if v is NONE:
        return False
    if isinstance(v, bool) or isinstance(v, z3.BoolRef):
        return bool(names & {'bool', 'int'})
    if is_intsort(v):
        return 'int' in names
    if is_num(v):
        return 'float' in names
    if isinstance(v, VArr):
        return 'ndarray' in names
    if isinstance(v, (VList, VSeq)):
        return 'list' in names
    if isinstance(v, VTuple):
        return 'tuple' in names
    if isinstance(v, VRec):
        return 'dict' in names
    if isinstance(v, VStr):
        return 'str' in names
    if type(v).__name__ == 'VGen':
        return bool(names & {'Generator'})
    raise Unsupported(f'isinstance of {type(v).__name__}')


@model('tpc')
def m_tpc(ex, st, args, kwargs, node):
    ex.dropped.add('clock (tpc) -> opaque real')
    return ex.fresh_real('clock')


@model('np.isinf', 'np.isnan')
def m_isinf(ex, st, args, kwargs, node):
    used('np.isinf / np.isnan -> False (A-REAL: no infinities or NaN)')
    ex.need_num(st, args[0], node)
    return False


@model('np.isfinite')
def m_isfinite(ex, st, args, kwargs, node):
    used('np.isfinite of a number -> True (A-REAL: no infinities or NaN)')
    ex.need_num(st, args[0], node)
    return True


@model('np.sqrt')
def m_sqrt(ex, st, args, kwargs, node):
    v = st.deref(args[0])
    if isinstance(v, VArr):
        return VArr(v.shape, None, None)
    v = ex.need_num(st, v, node)
    ex.oblige(st, 'safety', 'sqrt-of-nonnegative', Z(v) >= 0, node)
    used('np.sqrt(x) -> s with s >= 0 and s*s == x')
    s = ex.fresh_real('sqrt')
    st.assume(s >= 0, s * s == to_real(v))
    st.ghost.setdefault('sqrt', []).append((to_real(v), s))
    return s


@model('np.floor')
def m_floor(ex, st, args, kwargs, node):
    v = ex.need_num(st, args[0], node)
    used('np.floor(x) -> integer-valued f with f <= x < f + 1')
    f = ex.fresh_int('floor')
    st.assume(z3.ToReal(f) <= to_real(v), to_real(v) < z3.ToReal(f) + 1)
    st.ghost.setdefault('floor', []).append((to_real(v), f))
    return z3.ToReal(f)


@model('np.log2')
def m_log2(ex, st, args, kwargs, node):
    v = ex.need_num(st, args[0], node)
    ex.oblige(st, 'safety', 'log2-of-positive', Z(v) > 0, node)
    used('np.log2(x) -> uninterpreted log2 with: floor(log2 x) = p  <=>  2^p <= x < 2^(p+1)')
    return T.log2(to_real(v))


@model('np.max', 'np.min')
def m_npmax(ex, st, args, kwargs, node):
    v = st.deref(args[0])
    if isinstance(v, VArr):
        if v.note and v.note[0] == 'abs':
            used('np.max(np.abs(G)) -> maxabs(G) >= 0')
            r = ex.fresh_real('maxabs')
            st.assume(r >= 0)
            st.ghost.setdefault('maxabs', []).append((v.note[1], r))
            return r
        r = ex.fresh_real('max')
        st.ghost.setdefault('signedmax', []).append((v, r))      # np.max / np.min of a SIGNED array: may vanish or be negative
        return r
    raise Unsupported('np.max of a non-array')


@model('teneva._is_num')
def m_is_num(ex, st, args, kwargs, node):
    return m_isinstance(ex, st, [args[0], VTuple([TypeVal('int'), TypeVal('float')])], kwargs, node)


@model('tuple')
def m_tuple(ex, st, args, kwargs, node):
    v = st.deref(args[0])
    if isinstance(v, (VTuple, VList)):
        return VTuple(v.items)
    if isinstance(v, (VArr, VOpaque)):
        return VOpaque('tuple')
    raise Unsupported('tuple() of a symbolic value')


def shape_arg(ex, st, v, node):
    v = st.deref(v)
    if isinstance(v, (VTuple, VList)):
        return [ex.need_num(st, x, node) for x in v.items]
    if is_num(v):
        return [v]
    raise Unsupported('shape argument')


@model('np.zeros', 'np.ones', 'np.empty')
def m_zeros(ex, st, args, kwargs, node):
    shp = shape_arg(ex, st, args[0], node)
    name = ast.unparse(node.func)
    for s_ in shp:
        ex.oblige(st, 'call-pre', 'non-negative-dimension', Z(s_) >= 0, node)
    dt = 'f'
    if 'dtype' in kwargs and isinstance(kwargs['dtype'], TypeVal) and kwargs['dtype'].name == 'int':
        dt = 'i'
    used(f'{name}(shape) -> array of that shape')
    if name == 'np.zeros' and len(shp) == 3:
        return VArr(shp, T.zc(Z(shp[0]), Z(shp[1]), Z(shp[2])), 'core', dt)
    if name == 'np.ones' and len(shp) == 3:
        return VArr(shp, T.onesc(Z(shp[0]), Z(shp[1]), Z(shp[2])), 'core', dt)
    if name == 'np.zeros' and len(shp) == 2:
        return VArr(shp, T.zeros(Z(shp[0]), Z(shp[1])), 'mat', dt)
    return VArr(shp, None, None, dt)


@model('np.eye')
def m_eye(ex, st, args, kwargs, node):
    n = ex.need_num(st, args[0], node)
    used('np.eye(n) -> eye(n)')
    return VArr((n, n), T.eye(Z(n)), 'mat')


@model('np.arange')
def m_arange(ex, st, args, kwargs, node):
    if len(args) != 1:
        raise Unsupported('np.arange with start/stop')
    n = ex.need_num(st, args[0], node)
    used('np.arange(n) -> integer vector 0..n-1')
    k = z3.Int('k!a')
    arr = ex.fresh('arange', z3.ArraySort(z3.IntSort(), z3.IntSort()))
    st.assume(z3.ForAll([k], arr[k] == k, patterns=[arr[k]]))
    return VArr((n,), arr, 'ivec', 'i')


@model('np.concatenate')
def m_concatenate(ex, st, args, kwargs, node):
    parts = st.deref(args[0])
    if not isinstance(parts, (VList, VTuple)) or len(parts.items) != 2:
        raise Unsupported('np.concatenate of other than two arrays')
    g, h = [st.deref(x) for x in parts.items]
    ax = kwargs.get('axis', args[1] if len(args) > 1 else 0)
    if not isinstance(ax, int) or not (isinstance(g, VArr) and isinstance(h, VArr)) or g.ndim != h.ndim:
        raise Unsupported('np.concatenate pattern')
    nd = g.ndim
    if ax < 0:
        ax += nd
    used('np.concatenate([A, B], axis) -> requires all other dimensions to agree; cat0/cat2/hcat/vcat')
    for o in range(nd):
        if o != ax:
            ex.oblige(st, 'call-pre', f'concatenate-axis{ax}-dim{o}-agree', Z(g.shape[o]) == Z(h.shape[o]), node)
    shp = tuple(Z(g.shape[o]) + Z(h.shape[o]) if o == ax else g.shape[o] for o in range(nd))
    t = None
    tag = None
    if nd == 3 and g.tag == 'core' and h.tag == 'core' and g.t is not None and h.t is not None and ax in (0, 2):
        t, tag = (T.cat0 if ax == 0 else T.cat2)(g.t, h.t), 'core'
    if nd == 2 and g.tag == 'mat' and h.tag == 'mat' and g.t is not None and h.t is not None:
        t, tag = (T.vcat if ax == 0 else T.hcat)(g.t, h.t), 'mat'
    return VArr(shp, t, tag)


def reshape(ex, st, a, shp, order, node):
    shp = shape_arg(ex, st, shp, node)
    o = order.concrete() if isinstance(order, VStr) else 'C'
    used("np.reshape(A, shape, order) -> size must be preserved; order='F' unfoldings unfL / unfR / foldL / foldR")
    # patterns of teneva._reshape (order='F')
    if a.ndim == 3 and len(shp) == 2 and o == 'F':
        r1, n, r2 = a.shape
        if _same(st, shp[0], T.mul_canon(r1, n)) and _same(st, shp[1], Z(r2)):
            t = T.unfL(a.t) if a.tag == 'core' and a.t is not None else None
            return VArr((shp[0], shp[1]), t, 'mat' if t is not None else None)
        if _same(st, shp[0], Z(r1)) and _same(st, shp[1], T.mul_canon(n, r2)):
            t = T.unfR(a.t) if a.tag == 'core' and a.t is not None else None
            return VArr((shp[0], shp[1]), t, 'mat' if t is not None else None)
    if a.ndim == 2 and len(shp) == 3 and o == 'C' and a.tag == 'mat' and a.t is not None:
        m_, c_ = a.shape
        s0, s1, s2 = shp
        if not (isinstance(s0, int) and s0 == -1) and not (isinstance(s1, int) and s1 == -1) \
                and _same(st, m_, T.mul_canon(s0, s1)) and ((isinstance(s2, int) and s2 == -1) or _same(st, c_, Z(s2))):
            used("A.reshape(r1, n, -1) (C order) -> foldLC: a row permutation of the Fortran fold")
            return VArr((s0, s1, c_), T.foldLC(a.t, Z(s0), Z(s1)), 'core')
    if a.ndim == 2 and len(shp) == 3 and o == 'F':
        m_, c_ = a.shape
        s0, s1, s2 = shp
        if not isinstance(s2, int) or s2 != -1:
            if _same(st, m_, T.mul_canon(s0, s1)) and _same(st, c_, Z(s2)):
                t = T.foldL(a.t, Z(s0), Z(s1)) if a.tag == 'mat' and a.t is not None else None
                return VArr((s0, s1, s2), t, 'core' if t is not None else None)
        if isinstance(s0, int) and s0 == -1 and _same(st, c_, T.mul_canon(s1, s2)):
            t = T.foldR(a.t, Z(s1), Z(s2)) if a.tag == 'mat' and a.t is not None else None
            return VArr((m_, s1, s2), t, 'core' if t is not None else None)
        if isinstance(s2, int) and s2 == -1 and _same(st, m_, T.mul_canon(s0, s1)):
            t = T.foldL(a.t, Z(s0), Z(s1)) if a.tag == 'mat' and a.t is not None else None
            return VArr((s0, s1, c_), t, 'core' if t is not None else None)
        if not isinstance(s0, int) or s0 != -1:
            if _same(st, m_, Z(s0)) and _same(st, c_, T.mul_canon(s1, s2)):
                t = T.foldR(a.t, Z(s1), Z(s2)) if a.tag == 'mat' and a.t is not None else None
                return VArr((s0, s1, s2), t, 'core' if t is not None else None)
    if a.ndim == 1 and len(shp) == 2 and isinstance(shp[0], int) and shp[0] == -1 and isinstance(shp[1], int) and shp[1] == 1:
        used('reshape of a vector to (-1, 1) -> column of the same length')
        return VArr((a.shape[0], 1), None, None, a.dtype)
    if a.ndim == 1 and len(shp) == 3 and all(not (isinstance(x, int) and x == -1) for x in shp):
        size = T.mul_canon(*shp)
        ex.oblige(st, 'call-pre', 'reshape-preserves-size', Z(a.shape[0]) == size, node)
        return VArr(tuple(shp), None, None, a.dtype)
    if ex.lenient and len(shp) == 3 and all(not (isinstance(x, int) and x == -1) for x in shp):
        used('reshape to an explicit 3-D shape -> core of that shape (size compatibility of the reshape is not modelled)')
        t = ex.fresh('core', T.Core)
        st.assume(T.d0(t) == Z(shp[0]), T.d1(t) == Z(shp[1]), T.d2(t) == Z(shp[2]))
        return mk_core(t)
    if ex.lenient:
        used('reshape (unrecognised pattern) -> opaque array (lenient tier)')
        return VOpaque('reshape')
    raise Unsupported(f'reshape pattern {a.shape} -> {shp} (order {o}) at line {node.lineno}')


def _same(st, a, b):
    return quick_unsat(list(T.GROUPS['mulI']) + list(st.pc) + [Z(a) != Z(b)])


@model('teneva._reshape', 'np.reshape')
def m_reshape(ex, st, args, kwargs, node):
    a = st.deref(args[0])
    if isinstance(a, VOpt):
        ex.oblige(st, 'safety', 'reshaped-value-not-None', z3.Not(a.isnone), node)
        a = st.deref(a.val)
    if isinstance(a, VOpaque):
        return VOpaque('reshape')
    order = kwargs.get('order', args[2] if len(args) > 2 else VStr('F' if ast.unparse(node.func) == 'teneva._reshape' else 'C'))
    if not isinstance(a, VArr):
        raise Unsupported('reshape of a non-array')
    return reshape(ex, st, a, args[1], order, node)


@model('np.array', 'np.asanyarray', 'np.asarray')
def m_array(ex, st, args, kwargs, node):
    v = st.deref(args[0])
    if isinstance(v, VOpt):
        ex.oblige(st, 'safety', 'array-argument-not-None', z3.Not(v.isnone), node)
        v = st.deref(v.val)
    used('np.array / np.asanyarray(x, dtype) -> array with the same shape and values')
    dt = None
    if 'dtype' in kwargs and isinstance(kwargs['dtype'], TypeVal):
        dt = {'int': 'i', 'float': 'f'}.get(kwargs['dtype'].name)
    if isinstance(v, VArr):
        return VArr(v.shape, v.t, v.tag, dt or v.dtype, v.note)
    if isinstance(v, (VList, VTuple)) and all(is_num(x) for x in v.items):
        return VArr((len(v.items),), None, None, dt or 'f')
    if isinstance(v, VSeq) and v.tag == 'int':
        return VArr((v.n,), v.arr, 'ivec', dt or 'i')
    if isinstance(v, VSeq) and v.tag == 'real':
        return VArr((v.n,), None, None, dt or 'f')
    if isinstance(v, VSeq) and v.tag == 'rows':
        row = v.get(z3.IntVal(0))
        return VArr((v.n, row.shape[0]), None, None, dt or row.dtype)
    if isinstance(v, VOpaque):
        return VOpaque('array')
    raise Unsupported(f'np.array of {type(v).__name__}')


@model('np.linalg.qr')
def m_qr(ex, st, args, kwargs, node):
    a = st.deref(args[0])
    mode = kwargs.get('mode')
    mode = 'reduced' if mode is None else (mode.concrete() if isinstance(mode, VStr) else None)
    if mode not in ('reduced', 'complete'):
        raise Unsupported('np.linalg.qr mode other than reduced / complete')
    if not (isinstance(a, VArr) and a.ndim == 2):
        raise Unsupported('qr of a non-matrix')
    used("np.linalg.qr(A) (reduced) -> Q (m x k), R (k x n), k = min(m, n), Q R = A, Q^T Q = I   [A-LAPACK]")
    m_, n_ = Z(a.shape[0]), Z(a.shape[1])
    q, r = ex.fresh('Q', T.Mat), ex.fresh('R', T.Mat)
    k = z3.If(m_ <= n_, m_, n_) if mode == 'reduced' else m_
    st.assume(T.rows(q) == m_, T.cols(q) == k, T.rows(r) == k, T.cols(r) == n_)
    if a.t is not None and a.tag == 'mat':
        st.assume(T.mm(q, r) == a.t, T.mm(T.tr(q), q) == T.eye(T.cols(q)))
    return VTuple([mk_mat(q), mk_mat(r)])


@model('sp.linalg.rq', 'scipy.linalg.rq')
def m_rq(ex, st, args, kwargs, node):
    a = st.deref(args[0])
    mode = kwargs.get('mode')
    if not isinstance(mode, VStr) or mode.concrete() != 'economic':
        raise Unsupported('scipy.linalg.rq mode other than economic')
    if not (isinstance(a, VArr) and a.ndim == 2):
        raise Unsupported('rq of a non-matrix')
    used("scipy.linalg.rq(A, mode='economic') -> R (m x k), Q (k x n), k = min(m, n), R Q = A, Q Q^T = I   [A-LAPACK]")
    m_, n_ = Z(a.shape[0]), Z(a.shape[1])
    q, r = ex.fresh('Q', T.Mat), ex.fresh('R', T.Mat)
    k = z3.If(m_ <= n_, m_, n_)
    st.assume(T.rows(r) == m_, T.cols(r) == k, T.rows(q) == k, T.cols(q) == n_)
    if a.t is not None and a.tag == 'mat':
        st.assume(T.mm(r, q) == a.t, T.mm(q, T.tr(q)) == T.eye(T.rows(q)))
    return VTuple([mk_mat(r), mk_mat(q)])


@model('teneva._ones')
def m_ones(ex, st, args, kwargs, node):
    k = ex.need_num(st, args[0], node)
    m = ex.need_num(st, args[1], node) if len(args) > 1 else 1
    used('teneva._ones(k, m) -> integer matrix of ones, shape (k, m)')
    return VArr((k, m), None, None, 'i')


@model('np.kron')
def m_kron(ex, st, args, kwargs, node):
    a, b = st.deref(args[0]), st.deref(args[1])
    if isinstance(a, VOpt) or isinstance(b, VOpt):
        a = st.deref(a.val) if isinstance(a, VOpt) else a
        b = st.deref(b.val) if isinstance(b, VOpt) else b
    if isinstance(a, VOpaque) or isinstance(b, VOpaque):
        return VOpaque('kron')
    if not (isinstance(a, VArr) and isinstance(b, VArr) and a.ndim == 2 and b.ndim == 2):
        raise Unsupported('np.kron pattern')
    used('np.kron(A, B) for matrices -> shape (rows A * rows B, cols A * cols B)')
    mul = lambda x, y: x * y if isinstance(x, int) and isinstance(y, int) else T.mul_canon(x, y)
    t = T.kron(a.t, b.t) if (a.tag == 'mat' and b.tag == 'mat' and a.t is not None and b.t is not None) else None
    return VArr((mul(a.shape[0], b.shape[0]), mul(a.shape[1], b.shape[1])), t, 'mat' if t is not None else None,
                'i' if a.dtype == 'i' and b.dtype == 'i' else 'f')


@model('np.hstack')
def m_hstack(ex, st, args, kwargs, node):
    parts = st.deref(args[0])
    if not isinstance(parts, (VTuple, VList)) or len(parts.items) != 2:
        raise Unsupported('np.hstack of other than two arrays')
    a, b = [st.deref(x) for x in parts.items]
    if isinstance(a, VOpaque) or isinstance(b, VOpaque):
        return VOpaque('hstack')
    if not (isinstance(a, VArr) and isinstance(b, VArr) and a.ndim == 2 and b.ndim == 2):
        raise Unsupported('np.hstack pattern')
    used('np.hstack((A, B)) for matrices -> requires equal row counts; columns add up')
    ex.oblige(st, 'call-pre', 'hstack-rows-agree', Z(a.shape[0]) == Z(b.shape[0]), node)
    t = T.hcat(a.t, b.t) if (a.tag == 'mat' and b.tag == 'mat' and a.t is not None and b.t is not None) else None
    return VArr((a.shape[0], Z(a.shape[1]) + Z(b.shape[1])), t, 'mat' if t is not None else None,
                'i' if a.dtype == 'i' and b.dtype == 'i' else 'f')


@model('np.linalg.norm')
def m_norm(ex, st, args, kwargs, node):
    v = st.deref(args[0])
    if kwargs or len(args) != 1:
        raise Unsupported('np.linalg.norm with axis / ord')
    used('np.linalg.norm(x) -> Frobenius norm, a non-negative real (fro(G) for a core)')
    if isinstance(v, VArr) and v.tag == 'core' and v.t is not None:
        return T.fro(v.t)
    if isinstance(v, (VArr, VOpaque)):
        r = ex.fresh_real('norm')
        st.assume(r >= 0)
        return r
    raise Unsupported('np.linalg.norm of a non-array')


@model('np.einsum')
def m_einsum(ex, st, args, kwargs, node):
    sub = args[0].concrete() if isinstance(args[0], VStr) else None
    ops = [st.deref(a) for a in args[1:]]
    key = (sub or '').replace(' ', '')
    if key == 'ijq,ql' and len(ops) == 2:
        G, Umat = ops
        if isinstance(G, VArr) and G.ndim == 3 and isinstance(Umat, VArr) and Umat.ndim == 2:
            used("np.einsum('ijq,ql', G, U) -> core times matrix on the right bond (cmulR); requires r2(G) = rows(U)")
            ex.oblige(st, 'call-pre', 'einsum-contracted-dimensions-agree', Z(G.shape[2]) == Z(Umat.shape[0]), node)
            t = T.cmulR(G.t, Umat.t) if (G.tag == 'core' and G.t is not None and Umat.tag == 'mat' and Umat.t is not None) else None
            return VArr((G.shape[0], G.shape[1], Umat.shape[1]), t, 'core' if t is not None else None)
    if key == 'rmq,m->rq' and len(ops) == 2:
        G, pv = ops
        if isinstance(G, VArr) and G.ndim == 3 and isinstance(pv, VArr) and pv.ndim == 1:
            used("np.einsum('rmq,m->rq', G, p) -> weighted mode sum (wsum); requires len(p) = n(G)")
            ex.oblige(st, 'call-pre', 'einsum-contracted-dimensions-agree', Z(G.shape[1]) == Z(pv.shape[0]), node)
            wt = getattr(pv, 'wt', None)
            t = T.wsum(G.t, wt) if (G.tag == 'core' and G.t is not None and wt is not None) else None
            return VArr((G.shape[0], G.shape[2]), t, 'mat' if t is not None else None)
    if ex.lenient:
        used(f'np.einsum({key!r}, ...) pattern not modelled -> opaque array (lenient tier)')
        return VOpaque('einsum')
    raise Unsupported(f'np.einsum pattern {sub!r}')


@model('np.argmax')
def m_argmax_list(ex, st, args, kwargs, node):
    v = st.deref(args[0])
    if isinstance(v, (VList, VTuple)) and all(is_num(x) for x in v.items) and len(v.items) >= 1:
        used('np.argmax([x0, x1, ...]) -> position of the first largest element')
        best, pos = Z(v.items[0]), z3.IntVal(0)
        for k, x in enumerate(v.items[1:], start=1):
            x = Z(x)
            if x.sort() != best.sort():
                x, best = to_real(x), to_real(best)
            pos = z3.If(x > best, k, pos)
            best = z3.If(x > best, x, best)
        return pos
    raise Unsupported('np.argmax pattern')


@model('np.sign')
def m_sign(ex, st, args, kwargs, node):
    v = st.deref(args[0])
    if isinstance(v, VArr):
        return VArr(v.shape, None, None, v.dtype)
    v = Z(ex.need_num(st, v, node))
    used('np.sign(x) -> 1 / 0 / -1')
    return z3.If(v > 0, z3.RealVal(1), z3.If(v < 0, z3.RealVal(-1), z3.RealVal(0))) if v.sort() == z3.RealSort() \
        else z3.If(v > 0, 1, z3.If(v < 0, -1, 0))
