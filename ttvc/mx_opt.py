"""Model-table entries for the units of contracts/optima_more.py (sample.sample_tt, sample.sample, optima.optima_tt_beam,
optima.optima_qtt, optima_func.optima_func_tt_beam; C14, C15, C20, C10).

Everything follows the wrapping pattern of kr.py and is only active for executors that carry the flag `ex.opt = True`
(other units keep seeing exactly what they saw before).  No theory axioms are added for sample_tt: the facts about NumPy /
itertools are stated by the models below (each with `used(...)`).

Value kinds defined here
  * SRow   (z3 datatype) one appended sample row of sample_tt.one_mode: the integer vector `vals` of length `w` together with
           three GHOST fields gn, ga, gb = (mode index, number of the prefix row, number of the suffix row) the row was built
           from.  The ghost fields are history variables: they are written when the row is appended (from the provenance of the
           pieces that np.concatenate put together) and only ever used as existential witnesses of the layout statement
           "row t is prefix[ga] (+) [gn] (+) suffix[gb] with t = (gn*L1 + ga)*L2 + gb".
  * Block  (z3 datatype) one list of rows as a value (what one_mode returns and sample_tt appends to I): rows, length, the
           prefix / suffix matrices that witness its layout and the two strides L1, L2 (numbers of prefix / suffix rows).
  * 'imat' arrays of ttvc/mx_misc.py (rows as z3 arrays) are re-used for the Latin-hypercube matrices: iterating over such a
           matrix yields its rows WITH provenance (`.src = (rows, number)`).
"""
import ast
import z3
from ttvc import symex
from ttvc.symex import (Unsupported, ContractMismatch, NONE, VStr, VOpt, VTuple, VRef, VList, VSeq, VArr, VFunc, VOpaque, VSym, Z,
                        is_num, is_intsort)
from ttvc import models as M, theory as T, rnd as R
from ttvc.models import model, used, to_real

I = z3.IntSort()
IA = z3.ArraySort(I, I)
IM = z3.ArraySort(I, IA)
_i, _k, _k2, _t = z3.Ints('i!o k!o k2!o t!o')


def on(ex):
    return getattr(ex, 'opt', False)


# ----------------------------------------------------------------------------------------------
# sample.sample_tt: rows, blocks

_SRow = z3.Datatype('SRow')
_SRow.declare('mkrow', ('vals', IA), ('w', I), ('gn', I), ('ga', I), ('gb', I))
SRow = _SRow.create()
SRows = z3.ArraySort(I, SRow)
_Block = z3.Datatype('SBlock')
_Block.declare('mkblk', ('brows', SRows), ('blen', I), ('bpre', IM), ('bsuf', IM), ('bl1', I), ('bl2', I))
Block = _Block.create()
Blocks = z3.ArraySort(I, Block)


# position of a row inside its block: spos(nn, a, b, L1, L2) = (nn*L1 + a)*L2 + b.  Uninterpreted inside the loop proofs (the layout facts are
# only carried along there); the definition (group 'spos') is used through single instances in quantifier-free arithmetic steps.
spos = z3.Function('spos', I, I, I, I, I, I)
_p1, _p2, _p3, _p4, _p5 = z3.Ints('nn!p a!p b!p L1!p L2!p')
T.GROUPS['spos'] = [T.A([_p1, _p2, _p3, _p4, _p5], spos(_p1, _p2, _p3, _p4, _p5) == (_p1 * _p4 + _p2) * _p5 + _p3, [spos(_p1, _p2, _p3, _p4, _p5)])]


def spos_def(nn, a, b, L1, L2):
    """one instance of the definition of spos (group 'spos')"""
    return spos(nn, a, b, L1, L2) == (nn * L1 + a) * L2 + b


def ivec(n, arr):
    return VArr((n,), arr, 'ivec', 'i')


def imat(rows, m, c):
    """(m, c) integer matrix whose row a is the z3 array rows[a] (the 'imat' kind of mx_misc)."""
    out = VArr((m, c), None, 'imat', 'i')
    out.rows, out.transposed = rows, False
    return out


class VSRows(VSeq):
    """A list of sample rows (elements of sort SRow); `block` is the Block value it came from (callee result), if any."""
    def __init__(self, arr, n, block=None):
        VSeq.__init__(self, arr, n, _wrap_row, 'srows', _unwrap_row)
        self.block = block

    def copy(self):
        return VSRows(self.arr, self.n, self.block)


def _wrap_row(t):
    return ivec(SRow.w(t), SRow.vals(t))


def _unwrap_row(ex, st, v, node):
    """Encoder of `res.append(np.concatenate([prefix, [n], suffix]))`: the row value plus its ghost provenance."""
    v = st.deref(v)
    parts = getattr(v, 'parts', None)
    if not (isinstance(v, VArr) and v.ndim == 1 and v.tag == 'ivec' and parts):
        raise ContractMismatch('sample_tt.one_mode: what is appended to res is not a concatenation of index pieces')
    mids = [k for k, p in enumerate(parts) if p[0] == 'lit']
    if len(mids) != 1 or len(parts) > 3 or any(p[0] == 'vec' and p[2] is None for p in parts):
        raise ContractMismatch('sample_tt.one_mode: appended row is not of the form prefix-row (+) [n] (+) suffix-row')
    m = mids[0]
    before, after = parts[:m], parts[m + 1:]
    if len(before) > 1 or len(after) > 1:
        raise ContractMismatch('sample_tt.one_mode: appended row is not of the form prefix-row (+) [n] (+) suffix-row')
    ga = before[0][2][1] if before else z3.IntVal(0)
    gb = after[0][2][1] if after else z3.IntVal(0)
    return SRow.mkrow(v.t, Z(v.shape[0]), Z(parts[m][1]), Z(ga), Z(gb))


def srows_kind(ex, st):
    """type hint for `res = []` in sample_tt.one_mode"""
    return st.alloc(VSRows(ex.fresh('res', SRows), z3.IntVal(0)))


def _wrap_block(t):
    return VSRows(Block.brows(t), Block.blen(t), t)


def _unwrap_block(ex, st, v, node):
    v = st.deref(v)
    if not isinstance(v, VSeq) or v.tag != 'srows':
        raise ContractMismatch('sample_tt: what is appended to I is not a list of sample rows')
    b = getattr(v, 'block', None)
    if b is not None and z3.eq(v.arr, Block.brows(b)) and z3.eq(Z(v.n), Block.blen(b)):
        return b
    b = ex.fresh('blk', Block)
    st.assume(Block.brows(b) == v.arr, Block.blen(b) == Z(v.n))
    return b


def blocks_kind(ex, st):
    """type hint for `I = []` in sample_tt"""
    return st.alloc(VSeq(ex.fresh('I', Blocks), z3.IntVal(0), _wrap_block, 'sblocks', _unwrap_block))


# iteration over the rows of an 'imat' matrix, and over itertools.product of two of them
_orig_iter_of_value = M._iter_of_value


def _rows_of(ex, st, v):
    v = st.deref(v)
    if isinstance(v, VArr) and v.ndim == 2 and v.tag == 'imat' and getattr(v, 'rows', None) is not None and not v.transposed:
        return v
    return None


def _row_value(v, j):
    out = ivec(v.shape[1], v.rows[j])
    out.src = (v.rows, j)
    return out


def _iter_of_value(ex, st, v, node):
    w = _rows_of(ex, st, v) if on(ex) else None
    if w is not None:
        used('iteration over a 2-D integer array -> its rows, in order')
        return Z(w.shape[0]), (lambda j, w=w: _row_value(w, j)), False
    return _orig_iter_of_value(ex, st, v, node)


M._iter_of_value = _iter_of_value
_orig_iteration = M.iteration


def iteration(ex, st, it, node):
    if on(ex) and isinstance(it, ast.Call) and ast.unparse(it.func) == 'itertools.product':
        if len(it.args) != 2 or it.keywords:
            raise Unsupported('itertools.product with other than two iterables')
        A, B = [_rows_of(ex, st, ex.ev(a, st)) for a in it.args]
        if A is None or B is None:
            raise Unsupported('itertools.product over something else than two integer matrices')
        used('itertools.product(A, B) -> the len(A) * len(B) pairs (A[a], B[b]), the LAST factor running fastest: '
             'element number j is (A[a], B[b]) with j = a * len(B) + b, 0 <= b < len(B)')
        la, lb = Z(A.shape[0]), Z(B.shape[0])

        def bind(ex_, st_, j, A=A, B=B, la=la, lb=lb):
            a, b = ex_.fresh_int('pa'), ex_.fresh_int('pb')
            st_.assume(j == a * lb + b, 0 <= b, b < lb, 0 <= a, a < la)
            return VTuple([_row_value(A, a), _row_value(B, b)])
        return M.Iteration(n=z3.If(z3.And(la >= 0, lb >= 0), la * lb, 0), bind=bind)
    return _orig_iteration(ex, st, it, node)


M.iteration = iteration
_orig_concat = M.FUNCS['np.concatenate']


@model('np.concatenate')
def m_concat_pieces(ex, st, args, kwargs, node):
    """np.concatenate([u, [n], v]) / [u, [n]] / [[n], v]: 1-D integer pieces (vectors and short literal lists of integers)."""
    parts = st.deref(args[0]) if args else None
    if on(ex) and isinstance(parts, (VList, VTuple)) and 2 <= len(parts.items) <= 3 and not kwargs and len(args) == 1:
        pieces = []
        for x in parts.items:
            x = st.deref(x)
            if isinstance(x, VArr) and x.ndim == 1 and x.tag == 'ivec' and x.t is not None and not callable(x.t):
                pieces.append(('vec', x, getattr(x, 'src', None)))
            elif isinstance(x, VList) and len(x.items) == 1 and is_intsort(x.items[0]):
                pieces.append(('lit', x.items[0]))
            else:
                pieces = None
                break
        if pieces is not None and any(p[0] == 'lit' for p in pieces):
            used('np.concatenate([u, [n], v]) for integer vectors u, v and an integer n -> the elements of u, then n, then the elements of v')
            arr = ex.fresh('cat', IA)
            off = z3.IntVal(0)
            for p in pieces:
                if p[0] == 'vec':
                    ln = Z(p[1].shape[0])
                    st.assume(z3.ForAll([_i], z3.Implies(z3.And(off <= _i, _i < off + ln), arr[_i] == p[1].t[_i - off]), patterns=[arr[_i]]))
                    off = off + ln
                else:
                    st.assume(arr[z3.simplify(off)] == Z(p[1]))
                    off = off + 1
            out = ivec(z3.simplify(off), arr)
            out.parts = pieces
            return out
    return _orig_concat(ex, st, args, kwargs, node)


_orig_vstack = M.FUNCS.get('np.vstack')


def stack_entry(R_, k, t, c):
    """Entry [off[k] + t, c] of np.vstack(blocks): column c of row t of block k."""
    return SRow.vals(Block.brows(R_.blocks[k])[t])[c]


@model('np.vstack')
def m_vstack_blocks(ex, st, args, kwargs, node):
    v = st.deref(args[0]) if args else None
    if on(ex) and isinstance(v, VSeq) and v.tag == 'sblocks' and len(args) == 1 and not kwargs:
        used('np.vstack(list of lists of 1-D integer arrays) -> the rows of all lists one after the other: row off[k] + t is row t of list k, '
             'off[0] = 0, off[k+1] = off[k] + len(list k); requires at least one list, non-empty lists and one common row length')
        W = SRow.w(Block.brows(v.arr[0])[0])
        ex.oblige(st, 'call-pre', 'vstack-needs-at-least-one-array', v.n >= 1, node)
        ex.oblige(st, 'call-pre', 'vstack-every-block-is-non-empty',
                  z3.ForAll([_k], z3.Implies(z3.And(0 <= _k, _k < v.n), Block.blen(v.arr[_k]) >= 1), patterns=[v.arr[_k]]), node)
        ex.oblige(st, 'call-pre', 'vstack-all-rows-have-one-common-length',
                  z3.ForAll([_k, _t], z3.Implies(z3.And(0 <= _k, _k < v.n, 0 <= _t, _t < Block.blen(v.arr[_k])), SRow.w(Block.brows(v.arr[_k])[_t]) == W),
                            patterns=[Block.brows(v.arr[_k])[_t]]), node)
        off = ex.fresh('off', IA)
        st.assume(off[0] == 0,
                  z3.ForAll([_k, _k2], z3.Implies(z3.And(0 <= _k, _k2 == _k + 1, _k2 <= v.n), off[_k2] == off[_k] + Block.blen(v.arr[_k])),
                            patterns=[z3.MultiPattern(off[_k], off[_k2])]))
        out = VArr((off[v.n], W), None, 'sstack', 'i')
        out.off, out.blocks, out.nblk = off, v.arr, v.n
        return out
    if _orig_vstack is None:
        raise Unsupported('np.vstack pattern')
    return _orig_vstack(ex, st, args, kwargs, node)


# nested function definitions that are replaced by a contract of their own:  ex.local_contracts = {name: (params, handler)}
_orig_funcdef = getattr(symex.Exec, 'st_FunctionDef', None)


def _st_FunctionDef(self, s, st):
    lc = getattr(self, 'local_contracts', None)
    if lc and s.name in lc:
        params, handler = lc[s.name]
        if [a.arg for a in s.args.args] != list(params) or s.args.defaults or s.args.vararg or s.args.kwarg or s.args.kwonlyargs or s.decorator_list:
            raise ContractMismatch(f'signature of the local function {s.name} differs from the one its contract was written for')
        used(f'local function {s.name} -> its own contract (unit of the nested function)')
        st.vars[s.name] = VFunc('local:' + s.name, handler)
        return [(st, symex.NORMAL)]
    if _orig_funcdef is None:
        raise Unsupported(f'statement FunctionDef at line {s.lineno}')
    return _orig_funcdef(self, s, st)


symex.Exec.st_FunctionDef = _st_FunctionDef


# ----------------------------------------------------------------------------------------------
# sample.sample_lhs, element level (unit sample.sample_lhs.bounds): the models of ttvc/rnd.py state multiset counts; here the same calls
# additionally state where the ELEMENTS of their results come from
_orig_repeat = M.FUNCS['np.repeat']


@model('np.repeat')
def m_repeat_elems(ex, st, args, kwargs, node):
    out = _orig_repeat(ex, st, args, kwargs, node)
    a = st.deref(args[0]) if args else None
    if on(ex) and isinstance(out, VArr) and out.ndim == 1 and out.tag == 'ivec' and isinstance(a, VArr) and a.ndim == 1 and a.tag == 'ivec' \
            and a.t is not None and not callable(a.t) and out.t is not None:
        used('np.repeat(v, c): every element of the result is an element of v')
        src = ex.fresh('repsrc', IA)
        st.assume(z3.ForAll([_i], z3.Implies(z3.And(0 <= _i, _i < Z(out.shape[0])), z3.And(0 <= src[_i], src[_i] < Z(a.shape[0]), out.t[_i] == a.t[src[_i]])),
                            patterns=[out.t[_i]]))
    return out


_orig_concat2 = M.FUNCS['np.concatenate']


@model('np.concatenate')
def m_concat_elems(ex, st, args, kwargs, node):
    out = _orig_concat2(ex, st, args, kwargs, node)
    parts = st.deref(args[0]) if args else None
    if on(ex) and isinstance(out, VArr) and out.ndim == 1 and out.tag == 'ivec' and getattr(out, 'parts', None) is None \
            and isinstance(parts, (VList, VTuple)) and len(parts.items) == 2 and out.t is not None:
        u, v = [st.deref(x) for x in parts.items]
        if all(isinstance(x, VArr) and x.ndim == 1 and x.tag == 'ivec' and x.t is not None and not callable(x.t) for x in (u, v)):
            used('np.concatenate([u, v]) for vectors: the elements of u followed by the elements of v')
            lu = Z(u.shape[0])
            st.assume(z3.ForAll([_i], z3.Implies(z3.And(0 <= _i, _i < lu + Z(v.shape[0])), out.t[_i] == z3.If(_i < lu, u.t[_i], v.t[_i - lu])), patterns=[out.t[_i]]))
    return out


_orig_method = M.method


def method(ex, st, recv, name, args, kwargs, node):
    r = st.deref(recv)
    if on(ex) and name == 'reshape' and isinstance(r, VArr) and r.ndim == 1 and r.tag == 'ivec' and r.t is not None and not callable(r.t) \
            and len(args) == 2 and not kwargs and isinstance(args[0], int) and args[0] == -1 and isinstance(args[1], int) and args[1] == 1:
        used('v.reshape(-1, 1) of an integer vector -> the column with the same elements')
        rows = ex.fresh('col', IM)
        st.assume(z3.ForAll([_i], rows[_i][0] == r.t[_i], patterns=[rows[_i]]))
        return imat(rows, r.shape[0], 1)
    out = _orig_method(ex, st, recv, name, args, kwargs, node)
    if on(ex) and isinstance(r, R.VGen) and name == 'choice' and kwargs.get('replace', True) is False and isinstance(out, VArr) and out.ndim == 1 \
            and out.tag == 'ivec' and out.t is not None and args:
        k = Z(ex.need_num(st, args[0], node))
        used('Generator.choice(k, s, replace=False): every drawn element lies in [0, k)')
        st.assume(z3.ForAll([_i], z3.And(0 <= out.t[_i], out.t[_i] < k), patterns=[out.t[_i]]))
    if on(ex) and isinstance(r, R.VGen) and name == 'integers' and len(args) == 3 and not kwargs and isinstance(out, VArr) and out.ndim == 1 \
            and out.tag == 'ivec' and out.t is not None:
        lo, hi = Z(ex.need_num(st, args[0], node)), Z(ex.need_num(st, args[1], node))
        used('Generator.integers(lo, hi, s): every drawn element lies in [lo, hi)')
        st.assume(z3.ForAll([_i], z3.And(lo <= out.t[_i], out.t[_i] < hi), patterns=[out.t[_i]]))
    return out


M.method = method


# ==============================================================================================
# optima.optima_tt_beam: the candidate table.  Two value kinds:
#   * 'imat' integer matrices with element-level rows (see above): the index table I;
#   * 'qvecs' float matrices held as a family of VECTORS with a denotation in the matrix theory: `vecs[s]` (sort Mat) is row s as a
#     1 x b matrix (axis 0: left-to-right sweep) or column s as an a x 1 matrix (axis 1: right-to-left sweep).
# Row numbers of C-ordered reshapes / Kronecker products are decoded by the theory functions qd(u, n) = u div n and qm(u, n) = u mod n
# (group 'qdm'; uninterpreted inside the proofs, so that the SAME terms appear on the Q side and on the I side of the beam).
qd = z3.Function('qd', I, I, I)
qm = z3.Function('qm', I, I, I)
ichain = z3.Function('ichain', T.TT, T.IDX, I, I, I, T.Mat)      # prod_{m=lo..hi} sl(Y[m], ix[m - off])   (args: Y, ix, off, lo, hi)
_u, _n, _c, _lo, _hi, _off, _lo2 = z3.Ints('u!o n!o c!o lo!o hi!o off!o lo2!o')
_Y = z3.Const('Y!o', T.TT)
_ix = z3.Const('ix!o', T.IDX)
T.GROUPS['qdmdef'] = [          # the meaning of qd / qm (never needed inside the e-matching proofs: it would bring in a nonlinear product)
    T.A([_u, _n], z3.Implies(z3.And(_u >= 0, _n >= 1), _u == qd(_u, _n) * _n + qm(_u, _n)), [qd(_u, _n)]),
]
T.GROUPS['qdm'] = [
    T.A([_u, _n], z3.Implies(z3.And(_u >= 0, _n >= 1), qd(_u, _n) >= 0), [qd(_u, _n)]),
    T.A([_u, _n], z3.Implies(z3.And(_u >= 0, _n >= 1), z3.And(0 <= qm(_u, _n), qm(_u, _n) < _n)), [qm(_u, _n)]),
    T.A([_u, _n, _c], z3.Implies(z3.And(_u >= 0, _n >= 1, _c >= 0, _u < T.mulI(_c, _n)), qd(_u, _n) < _c), [z3.MultiPattern(qd(_u, _n), T.mulI(_c, _n))]),
    T.A([_u, _n, _c], z3.Implies(z3.And(_u >= 0, _n >= 1, _c >= 0, _u < T.mulI(_n, _c)), qd(_u, _n) < _c), [z3.MultiPattern(qd(_u, _n), T.mulI(_n, _c))]),
]
T.GROUPS['ichain'] = [
    T.A([_Y, _ix, _off, _hi], z3.Implies(_hi - _off >= 0, ichain(_Y, _ix, _off, _hi, _hi) == T.sl(_Y[_hi], _ix[_hi - _off])), [ichain(_Y, _ix, _off, _hi, _hi)]),
    T.A([_Y, _ix, _off, _lo, _lo2, _hi], z3.Implies(z3.And(_lo >= 0, _lo - _off >= 0, _lo2 == _lo + 1, _lo2 <= _hi),
                                                    ichain(_Y, _ix, _off, _lo, _hi) == T.mm(T.sl(_Y[_lo], _ix[_lo - _off]), ichain(_Y, _ix, _off, _lo2, _hi))),
        [z3.MultiPattern(ichain(_Y, _ix, _off, _lo, _hi), ichain(_Y, _ix, _off, _lo2, _hi))]),
]
MatA = z3.ArraySort(I, T.Mat)


def qvecs(shape, vecs, axis, base=None):
    out = VArr(shape, None, 'qvecs', 'f')
    out.vecs, out.axis, out.base = vecs, axis, base
    return out


def is_qvecs(v):
    return isinstance(v, VArr) and v.tag == 'qvecs' and v.ndim == 2 and getattr(v, 'vecs', None) is not None


def is_imat(v):
    return isinstance(v, VArr) and v.tag == 'imat' and v.ndim == 2 and getattr(v, 'rows', None) is not None and not v.transposed


def rows_count(*f):
    return T.mul_canon(*f)


_orig_ones = M.FUNCS['teneva._ones']


@model('teneva._ones')
def m_ones_elems(ex, st, args, kwargs, node):
    if on(ex) and not kwargs and 1 <= len(args) <= 2:
        k = ex.need_num(st, args[0], node)
        m = ex.need_num(st, args[1], node) if len(args) > 1 else 1
        if is_intsort(k) and is_intsort(m):
            used('teneva._ones(k, m) -> the k x m integer matrix of ones')
            rows = ex.fresh('ones', IM)
            st.assume(z3.ForAll([_i, _k], rows[_i][_k] == 1, patterns=[rows[_i][_k]]))
            out = imat(rows, k, m)
            out.ones = True
            return out
    return _orig_ones(ex, st, args, kwargs, node)


_orig_reshape = M.reshape


def reshape(ex, st, a, shp, order, node):
    if on(ex) and isinstance(a, VArr):
        o = order.concrete() if isinstance(order, VStr) else None
        dims = M.shape_arg(ex, st, shp, node)
        # np.arange(n).reshape(-1, 1): the column 0 .. n-1
        if a.ndim == 1 and a.tag == 'ivec' and a.t is not None and not callable(a.t) and len(dims) == 2 and o == 'C' \
                and isinstance(dims[0], int) and dims[0] == -1 and isinstance(dims[1], int) and dims[1] == 1:
            used('v.reshape(-1, 1) of an integer vector -> the column with the same elements')
            rows = ex.fresh('col', IM)
            st.assume(z3.ForAll([_i], rows[_i][0] == a.t[_i], patterns=[rows[_i]]))
            return imat(rows, a.shape[0], 1)
        # G.reshape(n, r2) of a core with r1 = 1 / G.reshape(r1, n) of a core with r2 = 1 (C order): the mode slices as rows / columns
        if a.ndim == 3 and a.tag == 'core' and a.t is not None and len(dims) == 2 and o == 'C' and all(is_intsort(x) for x in dims) \
                and not any(isinstance(x, int) and x < 0 for x in dims):
            r1, n, r2 = a.shape
            axis = getattr(ex, 'opt_axis', None)
            if axis == 0:
                used('G.reshape(n, r2) of a core with r1 = 1 (C order) -> row i is the slice G[0, i, :]; requires r1 = 1 and the shape (n, r2)')
                ex.oblige(st, 'call-pre', 'first-core-reshape: r1 = 1 and the target shape is (n, r2)',
                          z3.And(Z(r1) == 1, Z(dims[0]) == Z(n), Z(dims[1]) == Z(r2)), node)
            elif axis == 1:
                used('G.reshape(r1, n) of a core with r2 = 1 (C order) -> column i is the slice G[:, i, 0]; requires r2 = 1 and the shape (r1, n)')
                ex.oblige(st, 'call-pre', 'last-core-reshape: r2 = 1 and the target shape is (r1, n)',
                          z3.And(Z(r2) == 1, Z(dims[0]) == Z(r1), Z(dims[1]) == Z(n)), node)
            else:
                raise Unsupported('reshape of a core to a matrix: sweep direction of the contract case is not set')
            vecs = ex.fresh('Qv', MatA)
            st.assume(z3.ForAll([_i], vecs[_i] == T.sl(a.t, _i), patterns=[vecs[_i]]))
            return qvecs((dims[0], dims[1]), vecs, axis, base=a.t)
        # (c, n, r2) -> (-1, r2)   /   (r1, n, c) -> (r1, -1)      (C order)
        if a.ndim == 3 and a.tag == 'q3' and len(dims) == 2 and o == 'C':
            c, G, vecs = a.cnt, a.core, a.vecs
            n = T.d1(G)
            if a.axis == 0 and isinstance(dims[0], int) and dims[0] == -1:
                used('X.reshape(-1, r2) of a (c, n, r2) array (C order) -> row u is X[u div n, u mod n, :]; requires the last dimension to be r2')
                ex.oblige(st, 'call-pre', 'reshape-keeps-the-rank-dimension', Z(dims[1]) == Z(a.shape[2]), node)
                new = ex.fresh('Qv', MatA)
                st.assume(z3.ForAll([_u], new[_u] == T.mm(vecs[qd(_u, n)], T.sl(G, qm(_u, n))), patterns=[new[_u]]))
                out = qvecs((rows_count(c, n), a.shape[2]), new, 0)
                out.qmap = (lambda u, n=n: qd(u, n), lambda u, n=n: qm(u, n))          # vector u <- (candidate, mode index)
                return out
            if a.axis == 1 and isinstance(dims[1], int) and dims[1] == -1:
                used('X.reshape(r1, -1) of a (r1, n, c) array (C order) -> column u is X[:, u div c, u mod c]; requires the first dimension to be r1')
                ex.oblige(st, 'call-pre', 'reshape-keeps-the-rank-dimension', Z(dims[0]) == Z(a.shape[0]), node)
                new = ex.fresh('Qv', MatA)
                st.assume(z3.ForAll([_u], new[_u] == T.mm(T.sl(G, qd(_u, c)), vecs[qm(_u, c)]), patterns=[new[_u]]))
                out = qvecs((a.shape[0], rows_count(n, c)), new, 1)
                out.qmap = (lambda u, c=c: qm(u, Z(c)), lambda u, c=c: qd(u, Z(c)))
                return out
            raise Unsupported('reshape of the extended candidate array')
    return _orig_reshape(ex, st, a, shp, order, node)


M.reshape = reshape
_orig_binop = M.arr_binop


def arr_binop(ex, st, op, l, r, node):
    if on(ex) and is_qvecs(l) and not isinstance(r, VArr) and isinstance(op, (ast.Mult, ast.Div)):
        c = ex.need_num(st, r, node)
        if isinstance(op, ast.Mult):
            used('Q * x for a scalar x -> every row / column scaled by x')
            new = ex.fresh('Qv', MatA)
            st.assume(z3.ForAll([_i], new[_i] == T.smul(to_real(c), l.vecs[_i]), patterns=[new[_i]]))
            out = qvecs(l.shape, new, l.axis, l.base)
            out.scaled_from, out.factor = l, to_real(c)
            return out
        used('Q / x for a NumPy scalar x -> elementwise quotient, values not interpreted (a zero divisor gives inf / nan and a warning, not an exception)')
        # the candidate scores are (Q / x)**2 summed per candidate: a normaliser x = np.max(np.abs(Q)) vanishes only together with Q, but the
        # maximum / minimum of the SIGNED entries vanishes for every non-positive (non-negative) Q with a zero entry, and all scores become
        # inf / nan (C15: the kept candidate is then not the optimum, also for rank 1 and under a full beam).  Other divisors: no obligation.
        for _a, _r in st.ghost.get('signedmax', []):
            if z3.is_expr(c) and _r.eq(c):
                ex.oblige(st, 'safety', 'score-normaliser-vanishes-only-with-the-candidate-matrix (np.max / np.min of signed entries is 0 for a '
                          'one-signed matrix with a zero entry)', z3.Or(to_real(c) != 0, ex.fresh('Q_is_zero', z3.BoolSort())), node)
        return VArr(l.shape, None, None)
    return _orig_binop(ex, st, op, l, r, node)


M.arr_binop = arr_binop
_orig_einsum = M.FUNCS['np.einsum']


@model('np.einsum')
def m_einsum_beam(ex, st, args, kwargs, node):
    sub = args[0].concrete() if args and isinstance(args[0], VStr) else None
    key = (sub or '').replace(' ', '')
    if on(ex) and len(args) == 3 and set(kwargs) <= {'optimize'}:
        a, b = st.deref(args[1]), st.deref(args[2])
        if key == 'kr,riq->kiq' and is_qvecs(a) and a.axis == 0 and isinstance(b, VArr) and b.ndim == 3 and b.tag == 'core' and b.t is not None:
            used("np.einsum('kr,riq->kiq', Q, G) -> X[s, i, :] = Q[s, :] @ G[:, i, :]; requires cols Q = r1")
            ex.oblige(st, 'call-pre', 'einsum-contracted-dimensions-agree', Z(a.shape[1]) == Z(b.shape[0]), node)
            out = VArr((a.shape[0], b.shape[1], b.shape[2]), None, 'q3')
            out.vecs, out.core, out.cnt, out.axis = a.vecs, b.t, a.shape[0], 0
            return out
        if key == 'qir,rk->qik' and is_qvecs(b) and b.axis == 1 and isinstance(a, VArr) and a.ndim == 3 and a.tag == 'core' and a.t is not None:
            used("np.einsum('qir,rk->qik', G, Q) -> X[:, i, t] = G[:, i, :] @ Q[:, t]; requires r2 = rows Q")
            ex.oblige(st, 'call-pre', 'einsum-contracted-dimensions-agree', Z(a.shape[2]) == Z(b.shape[0]), node)
            out = VArr((a.shape[0], a.shape[1], b.shape[1]), None, 'q3')
            out.vecs, out.core, out.cnt, out.axis = b.vecs, a.t, b.shape[1], 1
            return out
    return _orig_einsum(ex, st, args, kwargs, node)


_orig_kron = M.FUNCS['np.kron']


@model('np.kron')
def m_kron_tables(ex, st, args, kwargs, node):
    a, b = (st.deref(args[0]), st.deref(args[1])) if len(args) == 2 else (None, None)
    if on(ex) and is_imat(a) and is_imat(b) and not kwargs:
        if getattr(b, 'ones', False) and isinstance(b.shape[1], int) and b.shape[1] == 1:
            n = Z(b.shape[0])
            used('np.kron(A, ones((n, 1))) -> every row of A repeated n times in a row: row u is A[u div n]')
            rows = ex.fresh('kron', IM)
            st.assume(z3.ForAll([_u], rows[_u] == a.rows[qd(_u, n)], patterns=[rows[_u]]))
            out = imat(rows, rows_count(a.shape[0], n), a.shape[1])
            out.rowmap = (lambda u, n=n: qd(u, n), a)
            return out
        if getattr(a, 'ones', False) and isinstance(a.shape[1], int) and a.shape[1] == 1:
            n = Z(b.shape[0])
            used('np.kron(ones((c, 1)), B) -> B repeated c times one below the other: row u is B[u mod rows(B)]')
            rows = ex.fresh('kron', IM)
            st.assume(z3.ForAll([_u], rows[_u] == b.rows[qm(_u, n)], patterns=[rows[_u]]))
            out = imat(rows, rows_count(a.shape[0], n), b.shape[1])
            out.rowmap = (lambda u, n=n: qm(u, n), b)
            return out
        raise Unsupported('np.kron of two index tables neither of which is a column of ones')
    return _orig_kron(ex, st, args, kwargs, node)


_orig_hstack = M.FUNCS['np.hstack']


@model('np.hstack')
def m_hstack_tables(ex, st, args, kwargs, node):
    parts = st.deref(args[0]) if args else None
    if on(ex) and isinstance(parts, (VTuple, VList)) and len(parts.items) == 2 and not kwargs:
        a, b = [st.deref(x) for x in parts.items]
        if is_imat(a) and is_imat(b):
            used('np.hstack((A, B)) for integer matrices -> row u is A[u] followed by B[u]; requires equal row counts')
            ex.oblige(st, 'call-pre', 'hstack-rows-agree', Z(a.shape[0]) == Z(b.shape[0]), node)
            wa = Z(a.shape[1])
            rows = ex.fresh('hst', IM)
            st.assume(z3.ForAll([_u, _k], rows[_u][_k] == z3.If(_k < wa, a.rows[_u][_k], b.rows[_u][_k - wa]), patterns=[rows[_u][_k]]))
            out = imat(rows, a.shape[0], z3.simplify(wa + Z(b.shape[1])))
            out.hparts = (a, b)
            return out
    return _orig_hstack(ex, st, args, kwargs, node)


_orig_sum = M.FUNCS['np.sum']


@model('np.sum')
def m_sum_axis(ex, st, args, kwargs, node):
    a = st.deref(args[0]) if args else None
    ax = kwargs.get('axis')
    if on(ex) and isinstance(a, VArr) and a.ndim == 2 and a.t is None and len(args) == 1 and set(kwargs) == {'axis'} and isinstance(ax, int) and ax in (0, 1):
        used('np.sum(A, axis) of a matrix -> vector over the other axis (values not interpreted)')
        out = VArr((a.shape[1 - ax],), None, 'scores')
        return out
    return _orig_sum(ex, st, args, kwargs, node)


_orig_argsort = M.FUNCS['np.argsort']


@model('np.argsort')
def m_argsort_scores(ex, st, args, kwargs, node):
    v = st.deref(args[0]) if args else None
    if on(ex) and isinstance(v, VArr) and v.ndim == 1 and v.tag == 'scores' and len(args) == 1 and not kwargs:
        used('np.argsort(w) -> a permutation of 0 .. len(w)-1')
        out = VArr(v.shape, None, 'perm', 'i')
        return out
    return _orig_argsort(ex, st, args, kwargs, node)


def _neg_k_plus_1(e):
    """the AST of -(k+1): returns the AST of k"""
    if isinstance(e, ast.UnaryOp) and isinstance(e.op, ast.USub) and isinstance(e.operand, ast.BinOp) and isinstance(e.operand.op, ast.Add) \
            and isinstance(e.operand.right, ast.Constant) and e.operand.right.value == 1:
        return e.operand.left
    return None


_orig_index = M.arr_index


def _full(e):
    return isinstance(e, ast.Slice) and e.lower is None and e.upper is None and e.step is None


def _is_sel(v):
    return isinstance(v, VArr) and v.ndim == 1 and v.tag == 'ivec' and getattr(v, 'sel_of', None) is not None


def arr_index(ex, st, a, sl_, node):
    if on(ex) and isinstance(a, VArr):
        elts = sl_.elts if isinstance(sl_, ast.Tuple) else [sl_]
        # argsort(w)[:-(k+1):-1]: the positions of the k largest, at most len(w) of them
        if a.ndim == 1 and a.tag == 'perm' and len(elts) == 1 and isinstance(elts[0], ast.Slice) and elts[0].lower is None \
                and elts[0].upper is not None and elts[0].step is not None and ex.ev(elts[0].step, st) == -1:
            kast = _neg_k_plus_1(elts[0].upper)
            if kast is None:
                raise Unsupported('slice of a permutation other than [:-(k+1):-1]')
            k = ex.need_num(st, ex.ev(kast, st), node)
            if not is_intsort(k):
                raise Unsupported('number of kept candidates is not an integer')
            n = Z(a.shape[0])
            used('argsort(w)[:-(k+1):-1] (k >= 0) -> min(k, len w) DISTINCT positions in [0, len w) (those of the largest elements, largest first)')
            ex.oblige(st, 'call-pre', 'number-of-kept-candidates-is-non-negative', Z(k) >= 0, node)
            arr = ex.fresh('sel', IA)
            ln = z3.If(Z(k) < n, Z(k), n)
            _j2 = z3.Int('j2!o')
            st.assume(z3.ForAll([_i], z3.Implies(z3.And(0 <= _i, _i < ln), z3.And(0 <= arr[_i], arr[_i] < n)), patterns=[arr[_i]]),
                      z3.ForAll([_i, _j2], z3.Implies(z3.And(0 <= _i, _i < _j2, _j2 < ln), arr[_i] != arr[_j2]), patterns=[z3.MultiPattern(arr[_i], arr[_j2])]))
            out = ivec(ln, arr)
            out.sel_of = n
            return out
        # gathers with the selected positions
        if a.ndim == 2 and len(elts) == 2:
            i0 = st.deref(ex.ev(elts[0], st)) if not isinstance(elts[0], ast.Slice) else None
            i1 = st.deref(ex.ev(elts[1], st)) if not isinstance(elts[1], ast.Slice) else None
            if is_imat(a) and _is_sel(i0) and _full(elts[1]):
                used('A[ind, :] -> the rows of A at the positions ind (requires the positions to be row numbers of A)')
                ex.oblige(st, 'call-pre', 'selected-positions-are-row-numbers-of-the-index-table', i0.sel_of == Z(a.shape[0]), node)
                rows = ex.fresh('gather', IM)
                st.assume(z3.ForAll([_i], rows[_i] == a.rows[i0.t[_i]], patterns=[rows[_i]]))
                out = imat(rows, i0.shape[0], a.shape[1])
                out.gathered = (a, i0)
                return out
            if is_qvecs(a) and ((a.axis == 0 and _is_sel(i0) and _full(elts[1])) or (a.axis == 1 and _is_sel(i1) and _full(elts[0]))):
                ind = i0 if a.axis == 0 else i1
                used('Q[ind, :] / Q[:, ind] -> the rows / columns of Q at the positions ind (requires the positions to be row / column numbers of Q)')
                ex.oblige(st, 'call-pre', 'selected-positions-are-vector-numbers-of-the-candidate-matrix', ind.sel_of == Z(a.shape[a.axis]), node)
                new = ex.fresh('Qv', MatA)
                st.assume(z3.ForAll([_i], new[_i] == a.vecs[ind.t[_i]], patterns=[new[_i]]))
                shp = (ind.shape[0], a.shape[1]) if a.axis == 0 else (a.shape[0], ind.shape[0])
                out = qvecs(shp, new, a.axis)
                out.gathered = (a, ind)
                return out
            if is_qvecs(a) and (_is_sel(i0) or _is_sel(i1)):
                raise Unsupported('selection along the wrong axis of the candidate matrix')
        if is_imat(a) and len(elts) == 1 and not isinstance(elts[0], ast.Slice):
            iv = ex.need_num(st, ex.ev(elts[0], st), node)
            i = M.norm_index(ex, st, iv, a.shape[0], node, 'row-index')
            used('A[i] of an integer matrix -> row i')
            out = ivec(a.shape[1], a.rows[Z(i)])
            out.src = (a.rows, Z(i))
            return out
    return _orig_index(ex, st, a, sl_, node)


M.arr_index = arr_index
_orig_subscript = M.subscript


def subscript(ex, st, base, sl_, node):
    b = st.deref(base)
    if on(ex) and isinstance(b, VSeq) and b.tag == 'core' and isinstance(sl_, ast.Slice) and sl_.lower is None and sl_.upper is None \
            and sl_.step is not None and ex.ev(sl_.step, st) == -1:
        used('list[::-1] -> the reversed list')
        arr = ex.fresh('rev', b.arr.sort())
        st.assume(z3.ForAll([_k], arr[_k] == b.arr[b.n - 1 - _k], patterns=[arr[_k]]))
        return st.alloc(VSeq(arr, b.n, b.wrap, b.tag, getattr(b, 'unwrap', None)))
    return _orig_subscript(ex, st, base, sl_, node)


M.subscript = subscript


# ==============================================================================================
# sample.sample (the chain sampler), control / shape tier.  `phi = [None] * (d + 1)` is a list whose elements are None, 1-D arrays (the
# right-to-left marginal vectors) or 2-D arrays (the left partial products at the drawn indices): elements of the datatype PhiE
# (kind 0 = None, 1 = vector of length n0, 2 = matrix n0 x n1).  Reading an element gives a VPhi (an array whose rank is only known as a
# term); the consumers below oblige the kind they need.
_PhiE = z3.Datatype('PhiE')
_PhiE.declare('mkphi', ('kind', I), ('n0', I), ('n1', I))
PhiE = _PhiE.create()


class VPhi:
    """element of the list phi read back: None / vector / matrix, known only through the term"""
    def __init__(self, t):
        self.t = t


def _unwrap_phi(ex, st, v, node):
    v = st.deref(v)
    if v is NONE:
        return PhiE.mkphi(0, 0, 0)
    if isinstance(v, VArr) and v.ndim == 1:
        return PhiE.mkphi(1, Z(v.shape[0]), 0)
    if isinstance(v, VArr) and v.ndim == 2:
        return PhiE.mkphi(2, Z(v.shape[0]), Z(v.shape[1]))
    if isinstance(v, VPhi):
        return v.t
    raise Unsupported('storing something else than None / a vector / a matrix into the list of interface arrays')


_orig_list_repeat = M.list_repeat


def list_repeat(ex, st, lst, n, node):
    if on(ex) and getattr(ex, 'opt_phi', False) and len(lst.items) == 1 and lst.items[0] is NONE:
        used('[None] * n -> list of n None entries')
        return st.alloc(VSeq(z3.K(I, PhiE.mkphi(0, 0, 0)), Z(n), VPhi, 'phi', _unwrap_phi))
    return _orig_list_repeat(ex, st, lst, n, node)


M.list_repeat = list_repeat
_orig_binop_s = M.arr_binop


def _need_vec(ex, st, v, ln, node, what):
    ex.oblige(st, 'call-pre', what, z3.And(PhiE.kind(v.t) == 1, PhiE.n0(v.t) == Z(ln)), node)


def arr_binop_sample(ex, st, op, l, r, node):
    if on(ex) and isinstance(op, ast.MatMult) and isinstance(l, VArr) and isinstance(r, VPhi):
        if l.ndim == 2:
            used('A @ v for a matrix and a vector -> vector of length rows(A); requires cols(A) = len(v)')
            _need_vec(ex, st, r, l.shape[1], node, 'matmul: right operand is a vector of length cols(A)')
            return VArr((l.shape[0],), None, None)
        if l.ndim == 3:
            used('G @ v for a 3-D array and a vector -> (r1, n) matrix; requires r2 = len(v)')
            _need_vec(ex, st, r, l.shape[2], node, 'matmul: right operand is a vector of length r2')
            return VArr((l.shape[0], l.shape[1]), None, None)
        raise Unsupported('@ with an element of the interface list')
    if on(ex) and getattr(ex, 'np_scalar_div', False) and isinstance(op, ast.Div) and isinstance(l, VArr) and not isinstance(r, (VArr, VPhi)):
        ex.need_num(st, r, node)
        used('A / x for a NumPy scalar x -> elementwise quotient, values not interpreted (a zero divisor gives inf / nan and a warning, not an exception)')
        return VArr(l.shape, None, None)
    return _orig_binop_s(ex, st, op, l, r, node)


M.arr_binop = arr_binop_sample
_orig_method_s = M.method


def method_sample(ex, st, recv, name, args, kwargs, node):
    r = st.deref(recv)
    if on(ex) and isinstance(r, VArr) and r.t is None and name == 'flatten' and not args and not kwargs and r.ndim == 2:
        used('A.flatten() of a matrix -> vector of length rows * cols')
        return VArr((T.mul_canon(r.shape[0], r.shape[1]),), None, None, r.dtype)
    return _orig_method_s(ex, st, recv, name, args, kwargs, node)


M.method = method_sample


_orig_maximum = M.FUNCS.get('np.maximum')


@model('np.maximum')
def m_maximum(ex, st, args, kwargs, node):
    a = st.deref(args[0]) if args else None
    if on(ex) and isinstance(a, VArr) and len(args) == 2 and not kwargs and not isinstance(st.deref(args[1]), VArr):
        ex.need_num(st, args[1], node)
        used('np.maximum(A, x) for a scalar x -> array of the same shape (elementwise maximum, values not interpreted)')
        out = VArr(a.shape, None, None, a.dtype)
        out.clipped = (a, args[1])
        return out
    if _orig_maximum is not None:
        return _orig_maximum(ex, st, args, kwargs, node)
    raise Unsupported('np.maximum pattern')


_orig_einsum_s = M.FUNCS['np.einsum']


@model('np.einsum')
def m_einsum_sample(ex, st, args, kwargs, node):
    sub = args[0].concrete() if args and isinstance(args[0], VStr) else None
    key = (sub or '').replace(' ', '')
    if on(ex) and not kwargs:
        ops = [st.deref(a) for a in args[1:]]
        if key == 'ma,aib,b->mi' and len(ops) == 3 and isinstance(ops[0], VPhi) and isinstance(ops[1], VArr) and ops[1].ndim == 3 and isinstance(ops[2], VPhi):
            L, G, Rv = ops
            used("np.einsum('ma,aib,b->mi', L, G, v) -> (m, n) matrix; requires L: (m, r1), v: (r2,)")
            ex.oblige(st, 'call-pre', 'einsum: left operand is a matrix with r1 columns', z3.And(PhiE.kind(L.t) == 2, PhiE.n1(L.t) == Z(G.shape[0])), node)
            _need_vec(ex, st, Rv, G.shape[2], node, 'einsum: right operand is a vector of length r2')
            out = VArr((PhiE.n0(L.t), G.shape[1]), None, None)
            out.cond_of = (L, G, Rv)
            return out
        if key == 'il,lij->ij' and len(ops) == 2 and isinstance(ops[0], VPhi) and isinstance(ops[1], VArr) and ops[1].ndim == 3:
            L, X3 = ops
            used("np.einsum('il,lij->ij', L, X) -> (m, r2) matrix; requires L: (m, r1), X: (r1, m, r2)")
            ex.oblige(st, 'call-pre', 'einsum: left operand is a matrix (m, r1) matching the gathered core (r1, m, r2)',
                      z3.And(PhiE.kind(L.t) == 2, PhiE.n1(L.t) == Z(X3.shape[0]), PhiE.n0(L.t) == Z(X3.shape[1])), node)
            return VArr((X3.shape[1], X3.shape[2]), None, None)
    return _orig_einsum_s(ex, st, args, kwargs, node)


_orig_index_s = M.arr_index


def arr_index_sample(ex, st, a, sl_, node):
    if on(ex) and isinstance(a, VArr) and a.ndim == 3 and isinstance(sl_, ast.Tuple) and len(sl_.elts) == 2 and _full(sl_.elts[0]) \
            and not isinstance(sl_.elts[1], ast.Slice):
        iv = st.deref(ex.ev(sl_.elts[1], st))
        if isinstance(iv, VArr) and iv.ndim == 1 and iv.dtype == 'i':
            used('G[:, ind] with an integer vector -> (r1, len ind, r2); requires the entries to be mode indices of G')
            if iv.tag == 'ivec' and iv.t is not None and not callable(iv.t):
                ex.oblige(st, 'safety', 'gathered-mode-indices-in-range',
                          z3.ForAll([_i], z3.Implies(z3.And(0 <= _i, _i < Z(iv.shape[0])), z3.And(0 <= iv.t[_i], iv.t[_i] < Z(a.shape[1]))), patterns=[iv.t[_i]]), node)
            st.ghost['gathers'] = st.ghost.get('gathers', []) + [(a, iv)]
            return VArr((a.shape[0], iv.shape[0], a.shape[2]), None, None)
    return _orig_index_s(ex, st, a, sl_, node)


M.arr_index = arr_index_sample
_orig_listcomp = M.listcomp


def listcomp_draws(ex, st, e):
    """[rand.choice(n, p=f(pi)) for pi in P]: one scalar draw per row of P, in row order"""
    g = e.generators[0] if len(e.generators) == 1 else None
    call = e.elt
    if not (on(ex) and g is not None and not g.ifs and isinstance(call, ast.Call) and isinstance(call.func, ast.Attribute) and call.func.attr == 'choice'
            and len(call.args) == 1 and [k.arg for k in call.keywords] == ['p']):
        return _orig_listcomp(ex, st, e)
    gen = st.deref(ex.ev(call.func.value, st))
    P = st.deref(ex.ev(g.iter, st))
    if not (isinstance(gen, R.VGen) and isinstance(P, VArr) and P.ndim == 2):
        return _orig_listcomp(ex, st, e)
    pop = ex.need_num(st, ex.ev(call.args[0], st), e)
    if not is_intsort(pop):
        raise Unsupported('Generator.choice: population is not an integer')
    # the probability expression, evaluated on a generic row
    saved = dict(st.vars)
    try:
        ex.assign(g.target, VArr((P.shape[1],), None, None, P.dtype), st)
        pv = st.deref(ex.ev(call.keywords[0].value, st))
    finally:
        for k in list(st.vars):
            if k not in saved:
                del st.vars[k]
            else:
                st.vars[k] = saved[k]
    if not (isinstance(pv, VArr) and pv.ndim == 1):
        raise Unsupported('Generator.choice: probabilities are not a vector')
    used('[rand.choice(n, p=f(row)) for row in P] -> one index in [0, n) per row of P, drawn in row order; requires n >= 1 and len(p) = n')
    ex.oblige(st, 'call-pre', 'choice-from-a-non-empty-population', Z(pop) >= 1, e)
    ex.oblige(st, 'call-pre', 'choice-probabilities-have-the-length-of-the-population', Z(pv.shape[0]) == Z(pop), e)
    arr = ex.fresh('draws', IA)
    m = Z(P.shape[0])
    st.assume(z3.ForAll([_i], z3.Implies(z3.And(0 <= _i, _i < m), z3.And(0 <= arr[_i], arr[_i] < Z(pop))), patterns=[arr[_i]]))
    nd0 = st.ghost.get('ndraw', z3.IntVal(0))
    st.ghost['drawlog'] = st.ghost.get('drawlog', []) + [dict(gen=gen, method='choice', params=(Z(pop), True), shape=[], out=arr, idx=nd0, family=m, rows_of=P)]
    st.ghost['ndraw'] = nd0 + m
    return st.alloc(VSeq(arr, m, lambda t: t, tag='int'))


M.listcomp = listcomp_draws
