"""Model-table entries for the units of contracts/optima_more.py (sample.sample_tt, sample.sample, optima.optima_tt_beam,
optima.optima_qtt, optima_func.optima_func_tt_beam; C14, C15, C20, C10).

Everything follows the wrapping pattern of kr.py and is only active for executors that carry the flag `ex.opt = True`
(other units keep seeing exactly what they saw before).  No theory axioms are added for sample_tt: the facts about NumPy /
itertools are stated by the models below (each with `used(...)`).

Value kinds defined here
  * SRow   (z3 datatype) one appended sample row of sample_tt.one_mode: the integer vector `vals` of length `w` together with
           three GHOST fields gn, ga, gb = (mode index, number of the prefix row, number of the suffix row) the row was built
           from.  The ghost fields are history variables: they are written when the row is appended (from the provenance of the
           pieces that np.concatenate put together) and only ever used as existential witnesses of the layout statement
           "row t is prefix[ga] (+) [gn] (+) suffix[gb] with t = (gn*L1 + ga)*L2 + gb".
  * Block  (z3 datatype) one list of rows as a value (what one_mode returns and sample_tt appends to I): rows, length and the
           prefix / suffix matrices that witness its layout.
  * 'imat' arrays of ttvc/mx_misc.py (rows as z3 arrays) are re-used for the Latin-hypercube matrices: iterating over such a
           matrix yields its rows WITH provenance (`.src = (rows, number)`).
"""
import ast
import z3
from ttvc import symex
from ttvc.symex import (Unsupported, ContractMismatch, NONE, VStr, VOpt, VTuple, VRef, VList, VSeq, VArr, VFunc, VOpaque, VSym, Z,
                        is_num, is_intsort)
from ttvc import models as M, theory as T, rnd as R
from ttvc.models import model, used, to_real

I = z3.IntSort()
IA = z3.ArraySort(I, I)
IM = z3.ArraySort(I, IA)
_i, _k, _k2, _t = z3.Ints('i!o k!o k2!o t!o')


def on(ex):
    return getattr(ex, 'opt', False)


# ----------------------------------------------------------------------------------------------
# sample.sample_tt: rows, blocks

_SRow = z3.Datatype('SRow')
_SRow.declare('mkrow', ('vals', IA), ('w', I), ('gn', I), ('ga', I), ('gb', I))
SRow = _SRow.create()
SRows = z3.ArraySort(I, SRow)
_Block = z3.Datatype('SBlock')
_Block.declare('mkblk', ('brows', SRows), ('blen', I), ('bpre', IM), ('bsuf', IM))
Block = _Block.create()
Blocks = z3.ArraySort(I, Block)


def ivec(n, arr):
    return VArr((n,), arr, 'ivec', 'i')


def imat(rows, m, c):
    """(m, c) integer matrix whose row a is the z3 array rows[a] (the 'imat' kind of mx_misc)."""
    out = VArr((m, c), None, 'imat', 'i')
    out.rows, out.transposed = rows, False
    return out


class VSRows(VSeq):
    """A list of sample rows (elements of sort SRow); `block` is the Block value it came from (callee result), if any."""
    def __init__(self, arr, n, block=None):
        VSeq.__init__(self, arr, n, _wrap_row, 'srows', _unwrap_row)
        self.block = block

    def copy(self):
        return VSRows(self.arr, self.n, self.block)


def _wrap_row(t):
    return ivec(SRow.w(t), SRow.vals(t))


def _unwrap_row(ex, st, v, node):
    """Encoder of `res.append(np.concatenate([prefix, [n], suffix]))`: the row value plus its ghost provenance."""
    v = st.deref(v)
    parts = getattr(v, 'parts', None)
    if not (isinstance(v, VArr) and v.ndim == 1 and v.tag == 'ivec' and parts):
        raise ContractMismatch('sample_tt.one_mode: what is appended to res is not a concatenation of index pieces')
    mids = [k for k, p in enumerate(parts) if p[0] == 'lit']
    if len(mids) != 1 or len(parts) > 3 or any(p[0] == 'vec' and p[2] is None for p in parts):
        raise ContractMismatch('sample_tt.one_mode: appended row is not of the form prefix-row (+) [n] (+) suffix-row')
    m = mids[0]
    before, after = parts[:m], parts[m + 1:]
    if len(before) > 1 or len(after) > 1:
        raise ContractMismatch('sample_tt.one_mode: appended row is not of the form prefix-row (+) [n] (+) suffix-row')
    ga = before[0][2][1] if before else z3.IntVal(0)
    gb = after[0][2][1] if after else z3.IntVal(0)
    return SRow.mkrow(v.t, Z(v.shape[0]), Z(parts[m][1]), Z(ga), Z(gb))


def srows_kind(ex, st):
    """type hint for `res = []` in sample_tt.one_mode"""
    return st.alloc(VSRows(ex.fresh('res', SRows), z3.IntVal(0)))


def _wrap_block(t):
    return VSRows(Block.brows(t), Block.blen(t), t)


def _unwrap_block(ex, st, v, node):
    v = st.deref(v)
    if not isinstance(v, VSeq) or v.tag != 'srows':
        raise ContractMismatch('sample_tt: what is appended to I is not a list of sample rows')
    b = getattr(v, 'block', None)
    if b is not None and z3.eq(v.arr, Block.brows(b)) and z3.eq(Z(v.n), Block.blen(b)):
        return b
    b = ex.fresh('blk', Block)
    st.assume(Block.brows(b) == v.arr, Block.blen(b) == Z(v.n))
    return b


def blocks_kind(ex, st):
    """type hint for `I = []` in sample_tt"""
    return st.alloc(VSeq(ex.fresh('I', Blocks), z3.IntVal(0), _wrap_block, 'sblocks', _unwrap_block))


# iteration over the rows of an 'imat' matrix, and over itertools.product of two of them
_orig_iter_of_value = M._iter_of_value


def _rows_of(ex, st, v):
    v = st.deref(v)
    if isinstance(v, VArr) and v.ndim == 2 and v.tag == 'imat' and getattr(v, 'rows', None) is not None and not v.transposed:
        return v
    return None


def _row_value(v, j):
    out = ivec(v.shape[1], v.rows[j])
    out.src = (v.rows, j)
    return out


def _iter_of_value(ex, st, v, node):
    w = _rows_of(ex, st, v) if on(ex) else None
    if w is not None:
        used('iteration over a 2-D integer array -> its rows, in order')
        return Z(w.shape[0]), (lambda j, w=w: _row_value(w, j)), False
    return _orig_iter_of_value(ex, st, v, node)


M._iter_of_value = _iter_of_value
_orig_iteration = M.iteration


def iteration(ex, st, it, node):
    if on(ex) and isinstance(it, ast.Call) and ast.unparse(it.func) == 'itertools.product':
        if len(it.args) != 2 or it.keywords:
            raise Unsupported('itertools.product with other than two iterables')
        A, B = [_rows_of(ex, st, ex.ev(a, st)) for a in it.args]
        if A is None or B is None:
            raise Unsupported('itertools.product over something else than two integer matrices')
        used('itertools.product(A, B) -> the len(A) * len(B) pairs (A[a], B[b]), the LAST factor running fastest: '
             'element number j is (A[a], B[b]) with j = a * len(B) + b, 0 <= b < len(B)')
        la, lb = Z(A.shape[0]), Z(B.shape[0])

        def bind(ex_, st_, j, A=A, B=B, la=la, lb=lb):
            a, b = ex_.fresh_int('pa'), ex_.fresh_int('pb')
            st_.assume(j == a * lb + b, 0 <= b, b < lb, 0 <= a, a < la)
            return VTuple([_row_value(A, a), _row_value(B, b)])
        return M.Iteration(n=z3.If(z3.And(la >= 0, lb >= 0), la * lb, 0), bind=bind)
    return _orig_iteration(ex, st, it, node)


M.iteration = iteration
_orig_concat = M.FUNCS['np.concatenate']


@model('np.concatenate')
def m_concat_pieces(ex, st, args, kwargs, node):
    """np.concatenate([u, [n], v]) / [u, [n]] / [[n], v]: 1-D integer pieces (vectors and short literal lists of integers)."""
    parts = st.deref(args[0]) if args else None
    if on(ex) and isinstance(parts, (VList, VTuple)) and 2 <= len(parts.items) <= 3 and not kwargs and len(args) == 1:
        pieces = []
        for x in parts.items:
            x = st.deref(x)
            if isinstance(x, VArr) and x.ndim == 1 and x.tag == 'ivec' and x.t is not None and not callable(x.t):
                pieces.append(('vec', x, getattr(x, 'src', None)))
            elif isinstance(x, VList) and len(x.items) == 1 and is_intsort(x.items[0]):
                pieces.append(('lit', x.items[0]))
            else:
                pieces = None
                break
        if pieces is not None and any(p[0] == 'lit' for p in pieces):
            used('np.concatenate([u, [n], v]) for integer vectors u, v and an integer n -> the elements of u, then n, then the elements of v')
            arr = ex.fresh('cat', IA)
            off = z3.IntVal(0)
            for p in pieces:
                if p[0] == 'vec':
                    ln = Z(p[1].shape[0])
                    st.assume(z3.ForAll([_i], z3.Implies(z3.And(off <= _i, _i < off + ln), arr[_i] == p[1].t[_i - off]), patterns=[arr[_i]]))
                    off = off + ln
                else:
                    st.assume(arr[z3.simplify(off)] == Z(p[1]))
                    off = off + 1
            out = ivec(z3.simplify(off), arr)
            out.parts = pieces
            return out
    return _orig_concat(ex, st, args, kwargs, node)


_orig_vstack = M.FUNCS.get('np.vstack')


def stack_entry(R_, k, t, c):
    """Entry [off[k] + t, c] of np.vstack(blocks): column c of row t of block k."""
    return SRow.vals(Block.brows(R_.blocks[k])[t])[c]


@model('np.vstack')
def m_vstack_blocks(ex, st, args, kwargs, node):
    v = st.deref(args[0]) if args else None
    if on(ex) and isinstance(v, VSeq) and v.tag == 'sblocks' and len(args) == 1 and not kwargs:
        used('np.vstack(list of lists of 1-D integer arrays) -> the rows of all lists one after the other: row off[k] + t is row t of list k, '
             'off[0] = 0, off[k+1] = off[k] + len(list k); requires at least one list, non-empty lists and one common row length')
        W = SRow.w(Block.brows(v.arr[0])[0])
        ex.oblige(st, 'call-pre', 'vstack-needs-at-least-one-array', v.n >= 1, node)
        ex.oblige(st, 'call-pre', 'vstack-every-block-is-non-empty',
                  z3.ForAll([_k], z3.Implies(z3.And(0 <= _k, _k < v.n), Block.blen(v.arr[_k]) >= 1), patterns=[v.arr[_k]]), node)
        ex.oblige(st, 'call-pre', 'vstack-all-rows-have-one-common-length',
                  z3.ForAll([_k, _t], z3.Implies(z3.And(0 <= _k, _k < v.n, 0 <= _t, _t < Block.blen(v.arr[_k])), SRow.w(Block.brows(v.arr[_k])[_t]) == W),
                            patterns=[Block.brows(v.arr[_k])[_t]]), node)
        off = ex.fresh('off', IA)
        st.assume(off[0] == 0,
                  z3.ForAll([_k, _k2], z3.Implies(z3.And(0 <= _k, _k2 == _k + 1, _k2 <= v.n), off[_k2] == off[_k] + Block.blen(v.arr[_k])),
                            patterns=[z3.MultiPattern(off[_k], off[_k2])]))
        out = VArr((off[v.n], W), None, 'sstack', 'i')
        out.off, out.blocks, out.nblk = off, v.arr, v.n
        return out
    if _orig_vstack is None:
        raise Unsupported('np.vstack pattern')
    return _orig_vstack(ex, st, args, kwargs, node)


# nested function definitions that are replaced by a contract of their own:  ex.local_contracts = {name: (params, handler)}
_orig_funcdef = getattr(symex.Exec, 'st_FunctionDef', None)


def _st_FunctionDef(self, s, st):
    lc = getattr(self, 'local_contracts', None)
    if lc and s.name in lc:
        params, handler = lc[s.name]
        if [a.arg for a in s.args.args] != list(params) or s.args.defaults or s.args.vararg or s.args.kwarg or s.args.kwonlyargs or s.decorator_list:
            raise ContractMismatch(f'signature of the local function {s.name} differs from the one its contract was written for')
        used(f'local function {s.name} -> its own contract (unit of the nested function)')
        st.vars[s.name] = VFunc('local:' + s.name, handler)
        return [(st, symex.NORMAL)]
    if _orig_funcdef is None:
        raise Unsupported(f'statement FunctionDef at line {s.lineno}')
    return _orig_funcdef(self, s, st)


symex.Exec.st_FunctionDef = _st_FunctionDef
