"""Model-table entries and spec symbols for the remaining evaluation routines of C01 (contracts/act_more.py):
props.size, act_one.mean / sum, transformation.full, act_one.get_many, data.accuracy_on_data, act_many.*.

New theory symbols (every axiom group below is exercised by lemmas/spotcheck.py through lemmas/spotcheck_ext_act.py):
  isum(a, k)      = a[0] + ... + a[k-1]                         np.sum of a list of k Python ints
  psize(Y, k)     = sum_{t<k} r_t n_t r_{t+1}                   spec function of props.size (canonical products)
  wsum(G, p)      (declared in theory.py) shape axioms           np.einsum('rmq,m->rq', G, p)
  wchain(Y, P, k) = wsum(Y[0],P[0]) @ ... @ wsum(Y[k],P[k])     spec function of mean / sum (chain of weighted mode sums)
  vnorm(v, n)     = sqrt(v[0]^2 + ... + v[n-1]^2)               np.linalg.norm of a 1-D array of length n

All handlers follow the wrapping pattern of kr.py: keep the previous hook, fall through to it."""
import ast
import z3
from ttvc.symex import Unsupported, ContractMismatch, NONE, VStr, VOpt, VTuple, VRef, VList, VSeq, VArr, VOpaque, Z, is_num, is_intsort
from ttvc import models as M, theory as T
from ttvc.models import used, model, to_real

I, R = z3.IntSort(), z3.RealSort()
IA = z3.ArraySort(I, I)
RA = z3.ArraySort(I, R)
WL = z3.ArraySort(I, RA)            # a list of weight vectors: P[k][m]

# ----------------------------------------------------------------------------------------------
# partial sums of an integer list; the parameter count of a TT-tensor

isum = z3.Function('isum', IA, I, I)
psize = z3.Function('psize', T.TT, I, I)
_a = z3.Const('a!x', IA)
_k, _j = z3.Ints('k!x j!x')


def core_size(G):
    """r1 * n * r2 in the canonical form of products of dimensions (what `G.size` evaluates to)."""
    return T.mul_canon(T.d0(G), T.d1(G), T.d2(G))


T.GROUPS['isum'] = [
    T.A([_a], isum(_a, 0) == 0, [isum(_a, 0)]),
    T.A([_a, _k, _j], z3.Implies(z3.And(_k >= 0, _j == _k + 1), isum(_a, _j) == isum(_a, _k) + _a[_k]),
        [z3.MultiPattern(isum(_a, _k), isum(_a, _j))]),
]
T.GROUPS['psize'] = [
    T.A([T.Y_], psize(T.Y_, 0) == 0, [psize(T.Y_, 0)]),
    T.A([T.Y_, _k, _j], z3.Implies(z3.And(_k >= 0, _j == _k + 1), psize(T.Y_, _j) == psize(T.Y_, _k) + core_size(T.Y_[_k])),
        [z3.MultiPattern(psize(T.Y_, _k), psize(T.Y_, _j))]),
]

_orig_sum = M.FUNCS.get('np.sum')


@model('np.sum')
def m_sum_intlist(ex, st, args, kwargs, node):
    a = st.deref(args[0])
    if isinstance(a, VSeq) and a.tag == 'int' and len(args) == 1 and not kwargs:
        used('np.sum([x_0, ..., x_{n-1}]) of a list of Python ints -> isum(list, n) = x_0 + ... + x_{n-1} (A-INT)')
        s = ex.fresh_int('sum')
        st.assume(s == isum(a.arr, a.n))
        st.ghost.setdefault('isum', []).append((a.arr, a.n, s))
        return s
    if _orig_sum is None:
        raise Unsupported('np.sum pattern')
    return _orig_sum(ex, st, args, kwargs, node)


# ----------------------------------------------------------------------------------------------
# weighted mode sums (act_one.mean / sum): weight vectors and the chain of weighted mode sums
#
# A weight vector is a 1-D float VArr carrying `.wt` (z3 array Int -> Real: its entries); the einsum model of models.py
# ('rmq,m->rq') reads `.wt` and yields wsum(G, wt).  Sources of weight vectors in the code:
#   np.ones(k)            -> wt = K(1)                     (constant vector)
#   np.ones(k) / c        -> wt = K(1 / c)                 (a constant vector divided by a number stays constant)
#   P[i] of a list P of weight vectors (WSeq below)        -> wt = P.arr[i], length P.lens[i]
#   p[:k] of a weight vector with k <= len(p)              -> the same entries, length k

wchain = z3.Function('wchain', T.TT, WL, I, T.Mat)
_P = z3.Const('P!x', WL)
_w = z3.Const('w!x', RA)

T.GROUPS['wsum'] = [
    T.A([T.G_, _w], z3.And(T.rows(T.wsum(T.G_, _w)) == T.d0(T.G_), T.cols(T.wsum(T.G_, _w)) == T.d2(T.G_)), [T.wsum(T.G_, _w)]),
]
T.GROUPS['wchain'] = [
    T.A([T.Y_, _P], wchain(T.Y_, _P, 0) == T.wsum(T.Y_[0], _P[0]), [wchain(T.Y_, _P, 0)]),
    T.A([T.Y_, _P, _k, _j], z3.Implies(z3.And(_k >= 1, _j == _k - 1),
                                        wchain(T.Y_, _P, _k) == T.mm(wchain(T.Y_, _P, _j), T.wsum(T.Y_[_k], _P[_k]))),
        [z3.MultiPattern(wchain(T.Y_, _P, _k), wchain(T.Y_, _P, _j))]),
]


def const_weights(c):
    return z3.K(I, to_real(c))


def is_wvec(v):
    """A 1-D float array whose entries are known as a z3 array Int -> Real (vec.RVec and compatible values)."""
    return isinstance(v, VArr) and v.ndim == 1 and v.tag == 'rvec' and v.t is not None and not callable(v.t) and v.t.sort() == RA


def mk_wvec(n, wt):
    from ttvc import vec as V
    return V.RVec(n, wt)


class WSeq(VSeq):
    """A list of weight vectors (the argument P of mean): element k is a 1-D float array of length lens[k] with entries arr[k][m]."""
    def __init__(self, arr, lens, n):
        super().__init__(arr, n, None, 'wvec')
        self.lens = lens

    def get(self, k):
        return mk_wvec(self.lens[k], self.arr[k])

    def copy(self):
        return WSeq(self.arr, self.lens, self.n)


_orig_ones = M.FUNCS['np.ones']


@model('np.ones')
def m_ones_weights(ex, st, args, kwargs, node):
    out = _orig_ones(ex, st, args, kwargs, node)
    if isinstance(out, VArr) and out.t is None and out.dtype == 'f' and not kwargs:
        if out.ndim == 1:
            used('np.ones(k) -> vector of k ones (entries: the constant array 1)')
            return mk_wvec(out.shape[0], const_weights(1))
        if out.ndim == 2 and all(isinstance(s_, int) and s_ == 1 for s_ in out.shape):
            used('np.ones((1, 1)) -> the 1 x 1 matrix [[1]] (sc(1))')
            return VArr((1, 1), T.sc(z3.RealVal(1)), 'mat')
    return out


_orig_binop = M.arr_binop


def arr_binop(ex, st, op, l, r, node):
    if isinstance(op, ast.Div) and is_wvec(l) and z3.is_K(l.t) and not isinstance(r, VArr):
        c = ex.need_num(st, r, node)
        ex.oblige(st, 'safety', 'division-by-nonzero', Z(c) != 0, node)
        used('(constant vector) / c -> constant vector with entry value / c')
        return mk_wvec(l.shape[0], const_weights(l.t.arg(0) / to_real(c)))
    return _orig_binop(ex, st, op, l, r, node)


M.arr_binop = arr_binop
_orig_einsum = M.FUNCS['np.einsum']


@model('np.einsum')
def m_einsum_act(ex, st, args, kwargs, node):
    sub = args[0].concrete() if args and isinstance(args[0], VStr) else None
    key = (sub or '').replace(' ', '')
    ops = [st.deref(a) for a in args[1:]]
    if key == 'rmq,m->rq' and len(ops) == 2 and is_wvec(ops[1]) and getattr(ops[1], 'wt', None) is None:
        ops[1].wt = ops[1].t          # the einsum model of models.py reads the entries of p from `.wt`
    return _orig_einsum(ex, st, args, kwargs, node)


# ----------------------------------------------------------------------------------------------
# dense export (transformation.full): np.tensordot(Z, G, 1) along a list of cores of concrete length
#
# A VArr with tag 'tdot' denotes the contraction of a chain of cores G_0, ..., G_{k-1} (its `t` is the tuple of their Core terms):
#     Z[a, i_0, ..., i_{k-1}, b] = (G_0[:, i_0, :] @ ... @ G_{k-1}[:, i_{k-1}, :])[a, b]
# which is what np.tensordot(..., 1) computes step by step (contraction of the last axis with the first axis).
# `Z[0, ...]` / `Z[..., 0]` drop the leading / trailing axis at a fixed position (recorded in .lead / .trail); all other axes,
# including those of length 1, stay.

def _td_parts(v):
    if isinstance(v, VArr) and v.ndim == 3 and v.tag == 'core' and v.t is not None:
        return [v.t]
    if isinstance(v, VArr) and v.tag == 'tdot' and v.lead is None and v.trail is None:
        return list(v.t)
    return None


def mk_tdot(shape, parts, lead=None, trail=None):
    v = VArr(shape, tuple(parts), 'tdot')
    v.lead, v.trail = lead, trail
    return v


def tdot_entry(v, idx):
    """The entry of a fully indexed 'tdot' array at the mode indices idx (leading / trailing axis already dropped)."""
    if not (isinstance(v, VArr) and v.tag == 'tdot' and v.lead is not None and v.trail is not None and len(idx) == len(v.t)):
        raise ContractMismatch('not a dense export of a chain of cores with both rank axes dropped')
    m = T.sl(v.t[0], idx[0])
    for g, i in zip(v.t[1:], idx[1:]):
        m = T.mm(m, T.sl(g, i))
    return T.ent(m, Z(v.lead), Z(v.trail))


_orig_tensordot = M.FUNCS['np.tensordot']


@model('np.tensordot')
def m_tensordot_chain(ex, st, args, kwargs, node):
    a, b = st.deref(args[0]), st.deref(args[1])
    axes = args[2] if len(args) > 2 else kwargs.get('axes', 2)
    pa, pb = _td_parts(a), _td_parts(b)
    if isinstance(axes, int) and axes == 1 and pa is not None and pb is not None and len(pb) == 1:
        used('np.tensordot(Z, G, 1) for a contracted chain of cores Z and a core G -> the chain extended by G '
             '(entry [a, i.., b] = (product of the mode slices)[a, b]); contracted dimensions must agree')
        ex.oblige(st, 'call-pre', 'tensordot-contracted-dims-agree', Z(a.shape[-1]) == Z(b.shape[0]), node)
        return mk_tdot(tuple(a.shape[:-1]) + tuple(b.shape[1:]), pa + pb)
    return _orig_tensordot(ex, st, args, kwargs, node)


def _is_ellipsis(e):
    return isinstance(e, ast.Constant) and e.value is Ellipsis


_orig_index = M.arr_index


def arr_index(ex, st, a, sl_, node):
    if isinstance(a, VArr) and a.tag == 'tdot' and isinstance(sl_, ast.Tuple) and len(sl_.elts) == 2 and a.ndim >= 2:
        e0, e1 = sl_.elts
        if _is_ellipsis(e1) and not _is_ellipsis(e0) and not isinstance(e0, ast.Slice) and a.lead is None:
            i = M.norm_index(ex, st, ex.need_num(st, ex.ev(e0, st), node), a.shape[0], node, 'array-index')
            used('Z[i, ...] -> the sub-array at position i of the first axis (all other axes kept, also those of length 1)')
            return mk_tdot(a.shape[1:], a.t, i, a.trail)
        if _is_ellipsis(e0) and not _is_ellipsis(e1) and not isinstance(e1, ast.Slice) and a.trail is None:
            i = M.norm_index(ex, st, ex.need_num(st, ex.ev(e1, st), node), a.shape[-1], node, 'array-index')
            used('Z[..., i] -> the sub-array at position i of the last axis (all other axes kept, also those of length 1)')
            return mk_tdot(a.shape[:-1], a.t, a.lead, i)
    return _orig_index(ex, st, a, sl_, node)


M.arr_index = arr_index


@model('np.squeeze')
def m_squeeze_chain(ex, st, args, kwargs, node):
    """np.squeeze(Z) removes EVERY axis of length 1: the number of axes of the result depends on the mode sizes (one path per case)."""
    a = st.deref(args[0])
    if not (isinstance(a, VArr) and a.tag == 'tdot' and a.lead is None and a.trail is None and len(args) == 1 and not kwargs):
        raise Unsupported('np.squeeze pattern')
    used('np.squeeze(Z) -> every axis of length 1 is removed (a case split over the axes whose length may be 1)')
    keep, fixed = [], {}
    lead = trail = None
    last = a.ndim - 1
    for k, n in enumerate(a.shape):
        if ex.decide(st, Z(n) == 1, node):
            if k == 0:
                lead = 0
            elif k == last:
                trail = 0
            else:
                fixed[k - 1] = 0
        else:
            keep.append(n)
    out = mk_tdot(tuple(keep), a.t, lead, trail)
    out.fixed = fixed
    return out
