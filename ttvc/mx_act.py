"""Model-table entries and spec symbols for the remaining evaluation routines of C01 (contracts/act_more.py):
props.size, act_one.mean / sum, transformation.full, act_one.get_many, data.accuracy_on_data, act_many.*.

New theory symbols (every axiom group below is exercised by lemmas/spotcheck.py through lemmas/spotcheck_ext_act.py):
  isum(a, k)      = a[0] + ... + a[k-1]                         np.sum of a list of k Python ints
  psize(Y, k)     = sum_{t<k} r_t n_t r_{t+1}                   spec function of props.size (canonical products)
  wsum(G, p)      (declared in theory.py) shape axioms           np.einsum('rmq,m->rq', G, p)
  wchain(Y, P, k) = wsum(Y[0],P[0]) @ ... @ wsum(Y[k],P[k])     spec function of mean / sum (chain of weighted mode sums)
  vnorm(v, n)     = sqrt(v[0]^2 + ... + v[n-1]^2)               np.linalg.norm of a 1-D array of length n

All handlers follow the wrapping pattern of kr.py: keep the previous hook, fall through to it."""
import ast
import z3
from ttvc.symex import Unsupported, ContractMismatch, NONE, VStr, VOpt, VTuple, VRef, VList, VSeq, VArr, VOpaque, Z, is_num, is_intsort
from ttvc import models as M, theory as T
from ttvc.models import used, model, to_real

I, R = z3.IntSort(), z3.RealSort()
IA = z3.ArraySort(I, I)
RA = z3.ArraySort(I, R)
WL = z3.ArraySort(I, RA)            # a list of weight vectors: P[k][m]

# ----------------------------------------------------------------------------------------------
# partial sums of an integer list; the parameter count of a TT-tensor

isum = z3.Function('isum', IA, I, I)
psize = z3.Function('psize', T.TT, I, I)
_a = z3.Const('a!x', IA)
_k, _j = z3.Ints('k!x j!x')


def core_size(G):
    """r1 * n * r2 in the canonical form of products of dimensions (what `G.size` evaluates to)."""
    return T.mul_canon(T.d0(G), T.d1(G), T.d2(G))


T.GROUPS['isum'] = [
    T.A([_a], isum(_a, 0) == 0, [isum(_a, 0)]),
    T.A([_a, _k, _j], z3.Implies(z3.And(_k >= 0, _j == _k + 1), isum(_a, _j) == isum(_a, _k) + _a[_k]),
        [z3.MultiPattern(isum(_a, _k), isum(_a, _j))]),
]
T.GROUPS['psize'] = [
    T.A([T.Y_], psize(T.Y_, 0) == 0, [psize(T.Y_, 0)]),
    T.A([T.Y_, _k, _j], z3.Implies(z3.And(_k >= 0, _j == _k + 1), psize(T.Y_, _j) == psize(T.Y_, _k) + core_size(T.Y_[_k])),
        [z3.MultiPattern(psize(T.Y_, _k), psize(T.Y_, _j))]),
]

_orig_sum = M.FUNCS.get('np.sum')


@model('np.sum')
def m_sum_intlist(ex, st, args, kwargs, node):
    a = st.deref(args[0])
    if isinstance(a, VSeq) and a.tag == 'int' and len(args) == 1 and not kwargs:
        used('np.sum([x_0, ..., x_{n-1}]) of a list of Python ints -> isum(list, n) = x_0 + ... + x_{n-1} (A-INT)')
        s = ex.fresh_int('sum')
        st.assume(s == isum(a.arr, a.n))
        st.ghost.setdefault('isum', []).append((a.arr, a.n, s))
        return s
    if _orig_sum is None:
        raise Unsupported('np.sum pattern')
    return _orig_sum(ex, st, args, kwargs, node)


# ----------------------------------------------------------------------------------------------
# weighted mode sums (act_one.mean / sum): weight vectors and the chain of weighted mode sums
#
# A weight vector is a 1-D float VArr carrying `.wt` (z3 array Int -> Real: its entries); the einsum model of models.py
# ('rmq,m->rq') reads `.wt` and yields wsum(G, wt).  Sources of weight vectors in the code:
#   np.ones(k)            -> wt = K(1)                     (constant vector)
#   np.ones(k) / c        -> wt = K(1 / c)                 (a constant vector divided by a number stays constant)
#   P[i] of a list P of weight vectors (WSeq below)        -> wt = P.arr[i], length P.lens[i]
#   p[:k] of a weight vector with k <= len(p)              -> the same entries, length k

wchain = z3.Function('wchain', T.TT, WL, I, T.Mat)
_P = z3.Const('P!x', WL)
_w = z3.Const('w!x', RA)

T.GROUPS['wsum'] = [
    T.A([T.G_, _w], z3.And(T.rows(T.wsum(T.G_, _w)) == T.d0(T.G_), T.cols(T.wsum(T.G_, _w)) == T.d2(T.G_)), [T.wsum(T.G_, _w)]),
]
T.GROUPS['wchain'] = [
    T.A([T.Y_, _P], wchain(T.Y_, _P, 0) == T.wsum(T.Y_[0], _P[0]), [wchain(T.Y_, _P, 0)]),
    T.A([T.Y_, _P, _k, _j], z3.Implies(z3.And(_k >= 1, _j == _k - 1),
                                        wchain(T.Y_, _P, _k) == T.mm(wchain(T.Y_, _P, _j), T.wsum(T.Y_[_k], _P[_k]))),
        [z3.MultiPattern(wchain(T.Y_, _P, _k), wchain(T.Y_, _P, _j))]),
]


def const_weights(c):
    return z3.K(I, to_real(c))


def is_wvec(v):
    """A 1-D float array whose entries are known as a z3 array Int -> Real (vec.RVec and compatible values)."""
    return isinstance(v, VArr) and v.ndim == 1 and v.tag == 'rvec' and v.t is not None and not callable(v.t) and v.t.sort() == RA


def mk_wvec(n, wt):
    from ttvc import vec as V
    return V.RVec(n, wt)


class WSeq(VSeq):
    """A list of weight vectors (the argument P of mean): element k is a 1-D float array of length lens[k] with entries arr[k][m]."""
    def __init__(self, arr, lens, n):
        super().__init__(arr, n, None, 'wvec')
        self.lens = lens

    def get(self, k):
        return mk_wvec(self.lens[k], self.arr[k])

    def copy(self):
        return WSeq(self.arr, self.lens, self.n)


_orig_ones = M.FUNCS['np.ones']


@model('np.ones')
def m_ones_weights(ex, st, args, kwargs, node):
    out = _orig_ones(ex, st, args, kwargs, node)
    if isinstance(out, VArr) and out.t is None and out.dtype == 'f' and not kwargs:
        if out.ndim == 1:
            used('np.ones(k) -> vector of k ones (entries: the constant array 1)')
            return mk_wvec(out.shape[0], const_weights(1))
        if out.ndim == 2 and all(isinstance(s_, int) and s_ == 1 for s_ in out.shape):
            used('np.ones((1, 1)) -> the 1 x 1 matrix [[1]] (sc(1))')
            return VArr((1, 1), T.sc(z3.RealVal(1)), 'mat')
    return out


_orig_binop = M.arr_binop


def arr_binop(ex, st, op, l, r, node):
    if isinstance(op, ast.Div) and is_wvec(l) and z3.is_K(l.t) and not isinstance(r, VArr):
        c = ex.need_num(st, r, node)
        ex.oblige(st, 'safety', 'division-by-nonzero', Z(c) != 0, node)
        used('(constant vector) / c -> constant vector with entry value / c')
        return mk_wvec(l.shape[0], const_weights(l.t.arg(0) / to_real(c)))
    return _orig_binop(ex, st, op, l, r, node)


M.arr_binop = arr_binop
_orig_einsum = M.FUNCS['np.einsum']


@model('np.einsum')
def m_einsum_act(ex, st, args, kwargs, node):
    sub = args[0].concrete() if args and isinstance(args[0], VStr) else None
    key = (sub or '').replace(' ', '')
    ops = [st.deref(a) for a in args[1:]]
    if key == 'rmq,m->rq' and len(ops) == 2 and is_wvec(ops[1]) and getattr(ops[1], 'wt', None) is None:
        ops[1].wt = ops[1].t          # the einsum model of models.py reads the entries of p from `.wt`
    return _orig_einsum(ex, st, args, kwargs, node)


# ----------------------------------------------------------------------------------------------
# dense export (transformation.full): np.tensordot(Z, G, 1) along a list of cores of concrete length
#
# A VArr with tag 'tdot' denotes the contraction of a chain of cores G_0, ..., G_{k-1} (its `t` is the tuple of their Core terms):
#     Z[a, i_0, ..., i_{k-1}, b] = (G_0[:, i_0, :] @ ... @ G_{k-1}[:, i_{k-1}, :])[a, b]
# which is what np.tensordot(..., 1) computes step by step (contraction of the last axis with the first axis).
# `Z[0, ...]` / `Z[..., 0]` drop the leading / trailing axis at a fixed position (recorded in .lead / .trail); all other axes,
# including those of length 1, stay.

def _td_parts(v):
    if isinstance(v, VArr) and v.ndim == 3 and v.tag == 'core' and v.t is not None:
        return [v.t]
    if isinstance(v, VArr) and v.tag == 'tdot' and v.lead is None and v.trail is None and not v.fixed:
        return list(v.t)
    return None


def mk_tdot(shape, parts, lead=None, trail=None, fixed=None):
    v = VArr(shape, tuple(parts), 'tdot')
    v.lead, v.trail, v.fixed = lead, trail, dict(fixed or {})
    return v


def tdot_entry(v, idx):
    """The entry of a 'tdot' array (leading and trailing rank axis dropped) at the indices idx of its remaining mode axes."""
    if not (isinstance(v, VArr) and v.tag == 'tdot' and v.lead is not None and v.trail is not None):
        raise ContractMismatch('not a dense export of a chain of cores with both rank axes dropped')
    free = [k for k in range(len(v.t)) if k not in v.fixed]
    if len(free) != len(idx):
        raise ContractMismatch('number of indices does not match the number of mode axes')
    pos = dict(v.fixed)
    pos.update(zip(free, idx))
    m = T.sl(v.t[0], Z(pos[0]))
    for k in range(1, len(v.t)):
        m = T.mm(m, T.sl(v.t[k], Z(pos[k])))
    return T.ent(m, Z(v.lead), Z(v.trail))


_orig_tensordot = M.FUNCS['np.tensordot']


@model('np.tensordot')
def m_tensordot_chain(ex, st, args, kwargs, node):
    a, b = st.deref(args[0]), st.deref(args[1])
    axes = args[2] if len(args) > 2 else kwargs.get('axes', 2)
    pa, pb = _td_parts(a), _td_parts(b)
    if isinstance(axes, int) and axes == 1 and pa is not None and pb is not None:
        used('np.tensordot(Z, G, 1) for contracted chains of cores Z and G -> the concatenated chain '
             '(entry [a, i.., b] = (product of the mode slices)[a, b]); contracted dimensions must agree')
        ex.oblige(st, 'call-pre', 'tensordot-contracted-dims-agree', Z(a.shape[-1]) == Z(b.shape[0]), node)
        return mk_tdot(tuple(a.shape[:-1]) + tuple(b.shape[1:]), pa + pb)
    return _orig_tensordot(ex, st, args, kwargs, node)


def _is_ellipsis(e):
    return isinstance(e, ast.Constant) and e.value is Ellipsis


_orig_index = M.arr_index


def arr_index(ex, st, a, sl_, node):
    if isinstance(a, VArr) and a.ndim >= 2 and isinstance(sl_, ast.Tuple) and len(sl_.elts) == 2 \
            and (a.tag == 'tdot' or a.tag is None or (a.tag == 'core' and a.t is not None)):
        e0, e1 = sl_.elts
        first = _is_ellipsis(e1) and not _is_ellipsis(e0) and not isinstance(e0, ast.Slice)
        last = _is_ellipsis(e0) and not _is_ellipsis(e1) and not isinstance(e1, ast.Slice)
        if first or last:
            ax = 0 if first else a.ndim - 1
            iv = st.deref(ex.ev(e0 if first else e1, st))
            if not isinstance(iv, VArr):
                i = M.norm_index(ex, st, ex.need_num(st, iv, node), a.shape[ax], node, 'array-index')
                used('Z[i, ...] / Z[..., i] -> the sub-array at position i of the first / last axis (all other axes kept, also those of length 1)')
                shp = tuple(a.shape[1:]) if first else tuple(a.shape[:-1])
                if a.tag is None:
                    return VArr(shp, None, None, a.dtype)
                t = a if a.tag == 'tdot' else mk_tdot(a.shape, [a.t])
                lead, trail, fixed = t.lead, t.trail, dict(t.fixed)
                free = [k for k in range(len(t.t)) if k not in fixed]
                if first and lead is None:
                    lead = i
                elif last and trail is None:
                    trail = i
                elif free:
                    fixed[free[0] if first else free[-1]] = i
                else:
                    raise Unsupported('indexing a 0-d array')
                return mk_tdot(shp, t.t, lead, trail, fixed)
    return _orig_index(ex, st, a, sl_, node)


M.arr_index = arr_index


@model('np.squeeze')
def m_squeeze_chain(ex, st, args, kwargs, node):
    """np.squeeze(Z) removes EVERY axis of length 1: the number of axes of the result depends on the mode sizes (one path per case)."""
    a = st.deref(args[0])
    if not (isinstance(a, VArr) and a.tag == 'tdot' and a.lead is None and a.trail is None and not a.fixed and len(args) == 1 and not kwargs):
        raise Unsupported('np.squeeze pattern')
    used('np.squeeze(Z) -> every axis of length 1 is removed (a case split over the axes whose length may be 1)')
    keep, fixed = [], {}
    lead = trail = None
    last = a.ndim - 1
    for k, n in enumerate(a.shape):
        if ex.decide(st, Z(n) == 1, node):
            if k == 0:
                lead = 0
            elif k == last:
                trail = 0
            else:
                fixed[k - 1] = 0
        else:
            keep.append(n)
    return mk_tdot(tuple(keep), a.t, lead, trail, fixed)


# ----------------------------------------------------------------------------------------------
# batched element access (act_one.get_many)
#
# Value kinds (plain VArr with a tag; `t` holds the denotation so that np.asanyarray keeps it):
#   'idxbatch'  2-D int array (m, w):      t = rows, a z3 array  s -> (k -> I[s, k])                 (a batch of multi-indices)
#   'idxcol'    1-D int array (m,):        t = (rows, k): the column I[..., k]
#   'matbatch'  3-D float array (a, m, b): t = MB, a z3 array  s -> Mat  with  X[:, s, :] = MB[s]    (a x b matrices)
#   'rowbatch'  2-D float array (m, b):    t = RB, a z3 array  s -> Mat  with  X[s, :]  = the 1 x b matrix RB[s]
# The facts about fresh batches are quantified over the sample number s with the pattern MB[s] / RB[s].

IM = z3.ArraySort(I, T.IDX)
MB = z3.ArraySort(I, T.Mat)
_s = z3.Int('s!x')


def idx_batch(rows, m, w):
    return VArr((m, w), rows, 'idxbatch', 'i')


def mk_batch(shape, arr, tag):
    return VArr(shape, arr, tag, 'f')


def _mode_indices_ok(ex, st, col, n, node):
    rows, k = col.t
    ex.oblige(st, 'call-pre', 'batch-mode-indices-in-range',
              z3.ForAll([_s], z3.Implies(z3.And(0 <= _s, _s < Z(col.shape[0])), z3.And(0 <= rows[_s][k], rows[_s][k] < Z(n)))), node)


_orig_index_b = M.arr_index


def arr_index_batch(ex, st, a, sl_, node):
    elts = sl_.elts if isinstance(sl_, ast.Tuple) else [sl_]
    full = lambda e: isinstance(e, ast.Slice) and e.lower is None and e.upper is None and e.step is None
    if isinstance(a, VArr) and a.tag == 'idxbatch' and len(elts) == 2 and _is_ellipsis(elts[0]) and not isinstance(elts[1], ast.Slice) \
            and not _is_ellipsis(elts[1]):
        kv = ex.ev(elts[1], st)
        if is_num(kv) and is_intsort(kv):
            k = M.norm_index(ex, st, kv, a.shape[1], node, 'column-index')
            used('I[..., k] of a 2-D integer array -> its k-th column')
            return VArr((a.shape[0],), (a.t, Z(k)), 'idxcol', 'i')
    if isinstance(a, VArr) and a.tag in ('rowbatch', 'matbatch') and len(elts) == 2 and _is_ellipsis(elts[0]) \
            and not isinstance(elts[1], ast.Slice) and not _is_ellipsis(elts[1]):
        cv = ex.ev(elts[1], st)
        if is_num(cv) and is_intsort(cv):
            c = Z(M.norm_index(ex, st, cv, a.shape[-1], node, 'column-index'))
            if a.tag == 'rowbatch':
                used('Q[..., c] of a (samples, r) array -> the vector of the c-th entries of its rows')
                arr = ex.fresh('vals', RA)
                st.assume(z3.ForAll([_s], z3.Implies(z3.And(0 <= _s, _s < Z(a.shape[0])), arr[_s] == T.ent(a.t[_s], 0, c)), patterns=[arr[_s]]))
                return mk_wvec(a.shape[0], arr)
            used('Q[..., c] of a 3-D array -> 2-D array without the last axis')
            return VArr(tuple(a.shape[:-1]), None, None, 'f')
    if isinstance(a, VArr) and a.ndim == 3 and a.tag == 'core' and a.t is not None and len(elts) == 3 and full(elts[2]) \
            and not isinstance(elts[1], ast.Slice) and not _is_ellipsis(elts[1]):
        col = st.deref(ex.ev(elts[1], st))
        if isinstance(col, VArr) and col.tag == 'idxcol':
            rows, k = col.t
            m = col.shape[0]
            if full(elts[0]):
                _mode_indices_ok(ex, st, col, a.shape[1], node)
                used('G[:, J, :] with a 1-D integer array J -> array (r1, len J, r2) whose s-th slice is G[:, J[s], :]')
                arr = ex.fresh('gather', MB)
                st.assume(z3.ForAll([_s], z3.Implies(z3.And(0 <= _s, _s < Z(m)), arr[_s] == T.sl(a.t, rows[_s][k])), patterns=[arr[_s]]))
                return mk_batch((a.shape[0], m, a.shape[2]), arr, 'matbatch')
            if not isinstance(elts[0], ast.Slice) and not _is_ellipsis(elts[0]):
                r0 = Z(M.norm_index(ex, st, ex.need_num(st, ex.ev(elts[0], st), node), a.shape[0], node, 'row-index'))
                _mode_indices_ok(ex, st, col, a.shape[1], node)
                used('G[a, J, :] with a 1-D integer array J -> array (len J, r2) whose s-th row is G[a, J[s], :]')
                arr = ex.fresh('gatherrow', MB)
                st.assume(z3.ForAll([_s], z3.Implies(z3.And(0 <= _s, _s < Z(m)), arr[_s] == T.row(T.sl(a.t, rows[_s][k]), r0)), patterns=[arr[_s]]))
                return mk_batch((m, a.shape[2]), arr, 'rowbatch')
    return _orig_index_b(ex, st, a, sl_, node)


M.arr_index = arr_index_batch
_orig_einsum2 = M.FUNCS['np.einsum']


@model('np.einsum')
def m_einsum_batch(ex, st, args, kwargs, node):
    sub = args[0].concrete() if args and isinstance(args[0], VStr) else None
    key = (sub or '').replace(' ', '')
    ops = [st.deref(a) for a in args[1:]]
    if key == '...q,q...r->...r' and len(ops) == 2 and not kwargs and all(isinstance(o, VArr) for o in ops) \
            and ops[0].tag in ('rowbatch', 'matbatch') and ops[1].tag == 'matbatch':
        Q, B = ops
        m = Q.shape[-2]
        used("np.einsum('...q,q...r->...r', Q, B) with Q (.., samples, q) and B (q, samples, r) -> for every sample s the product "
             "Q[.., s, :] @ B[:, s, :]; requires equal q and equal numbers of samples")
        ex.oblige(st, 'call-pre', 'einsum-contracted-dimensions-agree', Z(Q.shape[-1]) == Z(B.shape[0]), node)
        ex.oblige(st, 'call-pre', 'einsum-batch-dimensions-agree', Z(m) == Z(B.shape[1]), node)
        arr = ex.fresh('batchprod', MB)
        st.assume(z3.ForAll([_s], z3.Implies(z3.And(0 <= _s, _s < Z(m)), arr[_s] == T.mm(Q.t[_s], B.t[_s])), patterns=[arr[_s]]))
        return mk_batch(tuple(Q.shape[:-1]) + (B.shape[2],), arr, Q.tag)
    return _orig_einsum2(ex, st, args, kwargs, node)


def fresh_batch(ex, st, like, name='Q'):
    """Loop havoc of a batch value: same kind, same number of samples, fresh contents and fresh trailing dimension."""
    r = ex.fresh_int(name + '_cols')
    st.assume(r >= 0)
    return mk_batch(tuple(like.shape[:-1]) + (r,), ex.fresh(name + '_batch', MB), like.tag)


# ----------------------------------------------------------------------------------------------
# relative error on a data set (data.accuracy_on_data): difference of two real vectors, Euclidean norm of a real vector

vnorm = z3.Function('vnorm', RA, I, R)
_n = z3.Int('n!x')
T.GROUPS['vnorm'] = [
    T.A([_w, _n], vnorm(_w, _n) >= 0, [vnorm(_w, _n)]),
    T.A([_w], vnorm(_w, 0) == 0, [vnorm(_w, 0)]),
]

_orig_binop_v = M.arr_binop


def arr_binop_vec(ex, st, op, l, r, node):
    if isinstance(op, (ast.Sub, ast.Add)) and is_wvec(l) and is_wvec(r):
        used('u - v / u + v for two 1-D float arrays -> elementwise (requires equal lengths)')
        ex.oblige(st, 'call-pre', 'elementwise-shapes-agree', Z(l.shape[0]) == Z(r.shape[0]), node)
        arr = ex.fresh('vdiff' if isinstance(op, ast.Sub) else 'vsum', RA)
        f = (lambda a, b: a - b) if isinstance(op, ast.Sub) else (lambda a, b: a + b)
        st.assume(z3.ForAll([_s], arr[_s] == f(l.t[_s], r.t[_s]), patterns=[arr[_s]]))
        out = mk_wvec(l.shape[0], arr)
        st.ghost.setdefault('vec_ops', []).append(('sub' if isinstance(op, ast.Sub) else 'add', l, r, out))
        return out
    return _orig_binop_v(ex, st, op, l, r, node)


M.arr_binop = arr_binop_vec
_orig_norm = M.FUNCS['np.linalg.norm']


@model('np.linalg.norm')
def m_norm_vec(ex, st, args, kwargs, node):
    v = st.deref(args[0]) if args else None
    if len(args) == 1 and not kwargs and is_wvec(v):
        used('np.linalg.norm(v) of a 1-D float array -> vnorm(v, len v), the Euclidean norm (>= 0)   [A-REAL]')
        x = vnorm(v.t, Z(v.shape[0]))
        st.ghost.setdefault('vnorms', []).append((v, x))
        return x
    return _orig_norm(ex, st, args, kwargs, node)


# ----------------------------------------------------------------------------------------------
# enumerate(xs, start): models.iteration ignores the start value (it would silently count from 0); handled here

_orig_iteration = M.iteration


def iteration(ex, st, it, node):
    if isinstance(it, ast.Call) and ast.unparse(it.func) == 'enumerate' and (len(it.args) == 2 or it.keywords):
        if len(it.args) not in (1, 2) or [k.arg for k in it.keywords] not in ([], ['start']) or (len(it.args) == 2 and it.keywords):
            raise Unsupported('enumerate calling pattern')
        sn = it.args[1] if len(it.args) == 2 else it.keywords[0].value
        start = ex.need_num(st, ex.ev(sn, st), node)
        if not is_intsort(start):
            raise Unsupported('enumerate with a non-integer start')
        inner = iteration(ex, st, it.args[0], node)
        used('enumerate(xs, start) -> pairs (start + j, xs[j])')
        if inner.concrete is not None and isinstance(start, int):
            return M.Iteration(concrete=[VTuple([start + i, b]) for i, b in enumerate(inner.concrete)])
        if inner.concrete is not None:
            raise Unsupported('enumerate of a concrete iterable with a symbolic start')
        return M.Iteration(n=inner.n, bind=lambda ex_, st_, j: VTuple([Z(start) + j, inner.bind(ex_, st_, j)]))
    return _orig_iteration(ex, st, it, node)


M.iteration = iteration
