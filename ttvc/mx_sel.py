"""Model-table entries and spec symbols for the units of contracts/strengthen_sel.py:
maxvol.maxvol_rect (C08: the greedy selection never picks a row twice), tensors.const with a zero list (C19) and
anova.ANOVA.build_2 (C11: no mean of an empty selection).

Everything follows the wrapping pattern of kr.py (keep the previous hook, fall through to it) and is active only for executors that
carry the gate named at each section (`ex.sel_marks`, `ex.sel_const`, `ex.sel_pairs`), so that no other unit sees a different value
than before.

New theory symbols (every axiom is exercised by lemmas/spotcheck.py through lemmas/spotcheck_ext_sel.py):
  cntpos(S, n)   = #{x < n : S[x] > 0}            number of positive entries among the first n of an integer vector
  cwit(S, n)     = the first x < n with S[x] > 0   a witness of cntpos(S, n) >= 1
  scat0(S, J, m) = S with S[J[x]] = 0 for x < m    NumPy `S[J] = 0` with an index vector J of length m (entries in range)
  bcnt(b, n)     = #{s < n : b[s]}                 number of selected positions of a boolean mask = mask.sum()
  bwit(b, n)     = the first s < n with b[s]
The integer vectors are z3 arrays Int -> Int; updates of single elements are native z3 stores, np.ones(n, dtype=int) is the constant
array K(1) (as in mx_misc).
"""
import ast
import z3
from ttvc import symex
from ttvc.symex import Unsupported, ContractMismatch, NONE, VStr, VOpt, VTuple, VRef, VList, VRec, VSeq, VArr, VOpaque, Z, is_num, \
    is_intsort
from ttvc import models as M, theory as T, lin as L
from ttvc.models import used, model, to_real

I, R, B = z3.IntSort(), z3.RealSort(), z3.BoolSort()
IA = z3.ArraySort(I, I)
RA = z3.ArraySort(I, R)
BA = z3.ArraySort(I, B)

# ----------------------------------------------------------------------------------------------
# theory

cntpos = z3.Function('cntpos', IA, I, I)
cwit = z3.Function('cwit', IA, I, I)
scat0 = z3.Function('scat0', IA, IA, I, IA)
bcnt = z3.Function('bcnt', BA, I, I)
bwit = z3.Function('bwit', BA, I, I)

_S, _J = z3.Consts('S!s J!s', IA)
_b = z3.Const('b!s', BA)
_n, _m, _p, _v, _x, _y = z3.Ints('n!s m!s p!s v!s x!s y!s')
ONES = z3.K(I, z3.IntVal(1))

T.GROUPS['cntpos'] = [
    # a count lies between 0 and the length
    T.A([_S, _n], z3.And(cntpos(_S, _n) >= 0, z3.Implies(_n >= 0, cntpos(_S, _n) <= _n)), [cntpos(_S, _n)]),
    # a positive count has a witness
    T.A([_S, _n], z3.Implies(cntpos(_S, _n) >= 1, z3.And(0 <= cwit(_S, _n), cwit(_S, _n) < _n, _S[cwit(_S, _n)] > 0)), [cntpos(_S, _n)]),
    # all ones
    T.A([_n], z3.Implies(_n >= 0, cntpos(ONES, _n) == _n), [cntpos(ONES, _n)]),
    # one element replaced: the count changes by what leaves and what enters
    T.A([_S, _p, _v, _n], z3.Implies(z3.And(0 <= _p, _p < _n),
                                     cntpos(z3.Store(_S, _p, _v), _n) == cntpos(_S, _n) - z3.If(_S[_p] > 0, 1, 0) + z3.If(_v > 0, 1, 0)),
        [cntpos(z3.Store(_S, _p, _v), _n)]),
]
T.GROUPS['scat0'] = [
    # the listed positions are zero afterwards
    T.A([_S, _J, _m, _x], z3.Implies(z3.And(0 <= _x, _x < _m), scat0(_S, _J, _m)[_J[_x]] == 0), [z3.MultiPattern(scat0(_S, _J, _m), _J[_x])]),
    # every element is what it was or zero
    T.A([_S, _J, _m, _y], z3.Or(scat0(_S, _J, _m)[_y] == _S[_y], scat0(_S, _J, _m)[_y] == 0), [scat0(_S, _J, _m)[_y]]),
    # at most m positive entries disappear
    T.A([_S, _J, _m, _n], z3.Implies(z3.And(_m >= 0, _n >= 0), cntpos(scat0(_S, _J, _m), _n) >= cntpos(_S, _n) - _m), [cntpos(scat0(_S, _J, _m), _n)]),
]
T.GROUPS['bcnt'] = [
    T.A([_b, _n], z3.And(bcnt(_b, _n) >= 0, z3.Implies(_n >= 0, bcnt(_b, _n) <= _n)), [bcnt(_b, _n)]),
    T.A([_b, _n], z3.Implies(bcnt(_b, _n) >= 1, z3.And(0 <= bwit(_b, _n), bwit(_b, _n) < _n, _b[bwit(_b, _n)])), [bcnt(_b, _n)]),
    # a selected position makes the count positive
    T.A([_b, _n, _x], z3.Implies(z3.And(0 <= _x, _x < _n, _b[_x]), bcnt(_b, _n) >= 1), [z3.MultiPattern(bcnt(_b, _n), _b[_x])]),
]


def _is_ivec(v):
    return isinstance(v, VArr) and v.ndim == 1 and v.tag == 'ivec' and v.t is not None and not callable(v.t) and v.t.sort() == IA


def _is_bvec(v):
    return isinstance(v, VArr) and v.ndim == 1 and v.tag == 'bvec' and v.t is not None and v.t.sort() == BA


# ==============================================================================================
# gate `ex.sel_marks`: a 0/1 (more generally: positive / non-positive) integer vector that marks the rows still available to a greedy
# selection (maxvol_rect):   S = np.ones(n, dtype=int); S[I0] = 0; ...; i = np.argmax(np.where(S > 0, F, -np.inf)); S[i] = 0
#
#   S[J] = 0            (J an integer vector)  -> scat0(S, J, len J); obliges every entry of J to be a valid position (before the
#                                                  first loop only: the initial marking)
#   S > c, S >= c, ..   on an integer vector    -> boolean mask, elementwise
#   np.where(mask, F, -np.inf) / (.., np.inf)   -> an array that is -inf (+inf) outside the mask and finite inside (F is a real array: A-REAL)
#   np.argmax of such an array                  -> a position inside the mask whenever the mask holds somewhere (-inf), a position
#                                                  outside the mask whenever there is one (+inf)
#   np.argmax(F) of a 1-D array that is the result of elementwise arithmetic (values not tracked: marker `sel_free`) -> any position;
#   np.argmax of any other 1-D array (e.g. one that went through a masked store the engine does not follow) -> Unsupported, because
#   the engine has lost what the program knows about it.
#   Scalar stores `S[i] = c` keep the native model of lin.py (z3 store); the gate only records them in st.ghost['sel_marks'] as
#   (name, array before, position) so that a unit can state "the position was still available when it was taken".

def _on_marks(ex):
    return getattr(ex, 'sel_marks', False)


_orig_store = M.store


def store(ex, st, base, sl_, v, node, base_node):
    b = st.deref(base)
    if _on_marks(ex) and _is_ivec(b) and isinstance(base_node, ast.Name) and not isinstance(sl_, (ast.Slice, ast.Tuple)):
        iv = st.deref(ex.ev(sl_, st))
        if _is_ivec(iv) and isinstance(v, (int, float)) and not isinstance(v, bool) and v == 0:
            if '_j' in st.ghost:
                # the count axiom of scat0 is a lower bound (exact only for distinct, still positive positions): good enough for the
                # initial marking, too weak for a marking that is repeated in every pass of a loop
                raise Unsupported(f'S[J] = 0 with an index vector inside / after a loop (line {node.lineno}): the number of available rows is not tracked')
            used('S[J] = 0 with an integer index vector J -> zero at every listed position, unchanged elsewhere (requires every entry of J in range)')
            m, n = Z(iv.shape[0]), Z(b.shape[0])
            x = z3.Int('x!sc')
            ex.oblige(st, 'safety', 'index-array-in-range', z3.ForAll([x], z3.Implies(z3.And(0 <= x, x < m), z3.And(iv.t[x] >= -n, iv.t[x] < n)),
                                                                     patterns=[iv.t[x]]), node)
            # negative entries would count from the end; the denotation below is for non-negative ones
            ex.oblige(st, 'safety', 'index-array-non-negative', z3.ForAll([x], z3.Implies(z3.And(0 <= x, x < m), iv.t[x] >= 0), patterns=[iv.t[x]]), node)
            st.vars[base_node.id] = VArr(b.shape, scat0(b.t, iv.t, m), 'ivec', b.dtype)
            return
        if is_num(iv):
            st.ghost['sel_marks'] = list(st.ghost.get('sel_marks', [])) + [(base_node.id, b.t, Z(iv))]
    return _orig_store(ex, st, base, sl_, v, node, base_node)


M.store = store

_orig_compare = M.arr_compare


def arr_compare(ex, st, op, l, r, node):
    if _on_marks(ex) and _is_ivec(l) and not isinstance(r, VArr) and isinstance(op, (ast.Gt, ast.GtE, ast.Lt, ast.LtE)) and is_num(r):
        c = Z(r)
        f = {ast.LtE: lambda t: t <= c, ast.Lt: lambda t: t < c, ast.GtE: lambda t: t >= c, ast.Gt: lambda t: t > c}[type(op)]
        used('v > c (>=, <, <=) on an integer vector -> boolean mask, elementwise')
        mk = ex.fresh('mask', BA)
        i = z3.Int('i!sm')
        st.assume(z3.ForAll([i], mk[i] == f(l.t[i]), patterns=[mk[i], l.t[i]]))
        return VArr(l.shape, mk, 'bvec', 'b')
    return _orig_compare(ex, st, op, l, r, node)


M.arr_compare = arr_compare

_orig_binop = M.arr_binop


def arr_binop(ex, st, op, l, r, node):
    out = _orig_binop(ex, st, op, l, r, node)
    if _on_marks(ex) and isinstance(out, VArr) and out.ndim == 1 and out.t is None and isinstance(op, (ast.Add, ast.Sub, ast.Mult, ast.Div, ast.Pow)):
        out.sel_free = True          # the result of elementwise arithmetic on untracked values: its entries are unconstrained reals
    return out


M.arr_binop = arr_binop


class MaskedMax(VArr):
    """np.where(mask, F, -+inf) for a real array F: only the mask matters for the arg-max."""
    def __init__(self, shape, mask, sign):
        super().__init__(shape, None, 'wmasked', 'f')
        self.mask, self.sign = mask, sign


_orig_where = M.FUNCS['np.where']


@model('np.where')
def m_where_masked(ex, st, args, kwargs, node):
    if _on_marks(ex) and len(args) == 3 and not kwargs:
        c, a, b = st.deref(args[0]), st.deref(args[1]), args[2]
        if _is_bvec(c) and isinstance(a, VArr) and a.ndim == 1 and a.dtype != 'b' and is_num(b) and not isinstance(b, (int, float)):
            inf = M.GLOBAL_NAMES['np.inf']
            sign = -1 if z3.simplify(Z(b)).eq(z3.simplify(-inf)) else (1 if z3.simplify(Z(b)).eq(inf) else 0)
            if sign:
                ex.oblige(st, 'call-pre', 'where-shapes-agree', Z(c.shape[0]) == Z(a.shape[0]), node)
                used('np.where(mask, F, -np.inf) (np.inf) for a real array F -> F inside the mask, -inf (+inf) outside; entries of F are finite   [A-REAL]')
                return MaskedMax(c.shape, c, sign)
        if isinstance(c, VArr):
            raise Unsupported(f'np.where(cond, a, b) pattern at line {node.lineno}: the selection it encodes is not tracked')
    return _orig_where(ex, st, args, kwargs, node)


_orig_argmax = M.FUNCS['np.argmax']


@model('np.argmax')
def m_argmax_masked(ex, st, args, kwargs, node):
    if _on_marks(ex) and args and not kwargs:
        v = st.deref(args[0])
        if isinstance(v, MaskedMax):
            n = Z(v.shape[0])
            ex.oblige(st, 'call-pre', 'argmax-of-non-empty', n >= 1, node)
            i = ex.fresh_int('argmax')
            x = z3.Int('x!am')
            mk = v.mask.t
            st.assume(i >= 0, i < n)
            if v.sign < 0:
                used('np.argmax(np.where(mask, F, -np.inf)) -> a position inside the mask whenever the mask holds somewhere (finite F)   [A-REAL]')
                st.assume(z3.ForAll([x], z3.Implies(z3.And(0 <= x, x < n, mk[x]), mk[i]), patterns=[mk[x]]))
            else:
                used('np.argmax(np.where(mask, F, np.inf)) -> a position outside the mask whenever there is one (finite F)   [A-REAL]')
                st.assume(z3.ForAll([x], z3.Implies(z3.And(0 <= x, x < n, z3.Not(mk[x])), z3.Not(mk[i])), patterns=[mk[x]]))
            return i
        if isinstance(v, VArr) and v.ndim == 1 and not getattr(v, 'sel_free', False):
            raise Unsupported(f'np.argmax at line {node.lineno} of an array whose entries the engine does not follow (not the result of plain arithmetic)')
    return _orig_argmax(ex, st, args, kwargs, node)


# ==============================================================================================
# gate `ex.sel_const`: ghost records for tensors.const with a zero list.  Nothing is modelled differently; the gate only remembers, in
# st.ghost['sel_cset'], every element store `G[0, q, 0] = x` into a rank-one core (the term of the core before, q, x, the term after)
# and, in st.ghost['sel_corestore'], every store `Y[k] = G'` into a TT list (k, the term stored) - so that a unit can maintain a ghost
# witness ("row x of the zero list was zeroed in mode W[x]") without parsing path conditions.

def _on_const(ex):
    return getattr(ex, 'sel_const', False)


_orig_setitem = M.arr_setitem


def arr_setitem(ex, st, b, sl_, v, node):
    out = _orig_setitem(ex, st, b, sl_, v, node)
    if _on_const(ex) and isinstance(out, VArr) and out.tag == 'core' and out.t is not None and z3.is_app(out.t) and out.t.decl().eq(T.cset):
        st.ghost['sel_cset'] = list(st.ghost.get('sel_cset', [])) + [(out.t.arg(0), out.t.arg(1), out.t.arg(2), out.t)]
    return out


M.arr_setitem = arr_setitem

_orig_store_c = M.store


def store_c(ex, st, base, sl_, v, node, base_node):
    b = st.deref(base)
    if _on_const(ex) and isinstance(b, VSeq) and b.tag == 'core' and not isinstance(sl_, ast.Slice):
        val = st.deref(v)
        if isinstance(val, VArr) and val.tag == 'core' and val.t is not None:
            k = ex.ev(sl_, st)
            if is_num(k):
                st.ghost['sel_corestore'] = list(st.ghost.get('sel_corestore', [])) + [(Z(k), val.t)]
    return _orig_store_c(ex, st, base, sl_, v, node, base_node)


M.store = store_c


# ==============================================================================================
# gate `ex.sel_pairs` (together with `ex.anova = True` of mx_anova, whose records / attribute stores / tables it builds on): the pair
# tables of anova.ANOVA.build_2.
#
#   MaskCache   `cache = dict()` (handler `new_dict`, handed to the unit through callees={'dict': ..}): a dict from pairs of integers to
#               boolean masks: has[a][b] (key set), val[a][b] (the mask), clen[a][b] (its length).  `cache[a, b] = mask` stores;
#               `cache[a, b]` obliges key-present (KeyError otherwise) - except as the single statement of
#                     try: name = cache[a, b]
#                     except KeyError: <handler>
#               where the handler runs exactly on the paths on which the key is absent.
#   PairMap     `{}` -> dict from pairs of integers to reals (dom[a][b], val[a][b]); `d[a, b] = v` stores.  Appending it to the list of
#               pair tables (kind `pair_table_seq`, codes with t2dom / t2val of mx_anova) freezes it (no aliasing model).
#   m1 & m2     of two boolean masks with known entries -> elementwise conjunction (requires equal lengths)
#   mask.sum()  -> bcnt(mask, n), the number of selected positions;   mask.any() -> bcnt(mask, n) >= 1
#   y[mask]     of a real vector -> MaskSel (the selected sub-vector, never materialised; requires equal lengths)
#   np.mean(y[mask]) (handler `np_mean`) -> mmean(y, mask, n), an uninterpreted function of the data; obliges a non-empty selection
#               (NumPy returns nan with a warning for an empty mean: outside A-REAL)

mmean = z3.Function('mmean', RA, BA, I, R)
BAA = z3.ArraySort(I, BA)
PDOM, PVAL = z3.ArraySort(I, BA), z3.ArraySort(I, RA)
CVAL, CLEN = z3.ArraySort(I, z3.ArraySort(I, BA)), z3.ArraySort(I, IA)


def _on_pairs(ex):
    return getattr(ex, 'sel_pairs', False)


class MaskCache:
    def __init__(self, has, val, clen):
        self.has, self.val, self.clen = has, val, clen

    def copy(self):
        return MaskCache(self.has, self.val, self.clen)


class PairMap:
    def __init__(self, dom, val, frozen=False):
        self.dom, self.val, self.frozen = dom, val, frozen

    def copy(self):
        return PairMap(self.dom, self.val, self.frozen)


class MaskSel(VArr):
    """y[mask]: the sub-vector of the real vector y (length n) at the positions selected by the boolean mask."""
    def __init__(self, nsel, y, mask, n):
        super().__init__((nsel,), None, 'bmasked', 'f')
        self.y, self.mask, self.n = y, mask, n


def new_dict(ex, st, args, kwargs, node):
    if args or kwargs or not _on_pairs(ex):
        raise Unsupported(f'dict(...) at line {node.lineno}')
    used('dict() -> empty dict from pairs of integers to boolean masks (key set empty)')
    return st.alloc(MaskCache(z3.K(I, z3.K(I, z3.BoolVal(False))), ex.fresh('cacheval', CVAL), ex.fresh('cachelen', CLEN)))


def _pair_key(ex, st, sl_):
    key = ex.ev(sl_, st)
    if isinstance(key, VTuple) and len(key.items) == 2 and all(is_intsort(x) and not isinstance(x, bool) for x in key.items):
        return Z(key.items[0]), Z(key.items[1])
    raise Unsupported('dict key that is not a pair of integers')


_orig_ev_Dict = symex.Exec.ev_Dict


def _ev_Dict(self, e, st):
    if _on_pairs(self) and not e.keys:
        used('{} -> empty dict from pairs of integers to reals (key set empty)')
        return st.alloc(PairMap(z3.K(I, z3.K(I, z3.BoolVal(False))), self.fresh('pairval', PVAL)))
    return _orig_ev_Dict(self, e, st)


symex.Exec.ev_Dict = _ev_Dict

_orig_store_p = M.store


def store_p(ex, st, base, sl_, v, node, base_node):
    b = st.deref(base)
    if isinstance(b, MaskCache):
        a, c = _pair_key(ex, st, sl_)
        mk = st.deref(v)
        if not _is_bvec(mk):
            raise Unsupported(f'value stored into the mask cache at line {node.lineno} is not a boolean mask with known entries')
        used('cache[a, b] = mask -> key (a, b) added, mask stored')
        b.has = z3.Store(b.has, a, z3.Store(b.has[a], c, z3.BoolVal(True)))
        b.val = z3.Store(b.val, a, z3.Store(b.val[a], c, mk.t))
        b.clen = z3.Store(b.clen, a, z3.Store(b.clen[a], c, Z(mk.shape[0])))
        return
    if isinstance(b, PairMap):
        if b.frozen:
            raise Unsupported(f'store into a dict that already lives in a list (line {node.lineno}): aliasing is not modelled')
        a, c = _pair_key(ex, st, sl_)
        val = ex.need_num(st, v, node, 'dict-value')
        used('d[a, b] = v -> key (a, b) added, value stored')
        b.dom = z3.Store(b.dom, a, z3.Store(b.dom[a], c, z3.BoolVal(True)))
        b.val = z3.Store(b.val, a, z3.Store(b.val[a], c, to_real(val)))
        return
    return _orig_store_p(ex, st, base, sl_, v, node, base_node)


M.store = store_p

_orig_subscript_p = M.subscript


def _cache_get(b, a, c):
    return VArr((b.clen[a][c],), b.val[a][c], 'bvec', 'b')


def subscript_p(ex, st, base, sl_, node):
    b = st.deref(base)
    if isinstance(b, MaskCache):
        a, c = _pair_key(ex, st, sl_)
        used('cache[a, b] -> the stored mask; KeyError unless (a, b) is a key')
        ex.oblige(st, 'safety', 'key-present', b.has[a][c], node)
        return _cache_get(b, a, c)
    if isinstance(b, PairMap):
        a, c = _pair_key(ex, st, sl_)
        used('d[a, b] -> the stored value; KeyError unless (a, b) is a key')
        ex.oblige(st, 'safety', 'key-present', b.dom[a][c], node)
        return b.val[a][c]
    return _orig_subscript_p(ex, st, base, sl_, node)


M.subscript = subscript_p

_orig_havoc_p = M.havoc


def havoc_p(ex, st, v, name, mutated):
    if isinstance(v, VRef) and isinstance(st.heap.get(v.oid), MaskCache):
        st.heap[v.oid] = MaskCache(ex.fresh(name + '_has', z3.ArraySort(I, BA)), ex.fresh(name + '_val', CVAL), ex.fresh(name + '_len', CLEN))
        return v
    if isinstance(v, VRef) and isinstance(st.heap.get(v.oid), PairMap):
        if st.heap[v.oid].frozen:
            raise Unsupported(f'{name}: a dict that lives in a list is modified in a loop (aliasing is not modelled)')
        st.heap[v.oid] = PairMap(ex.fresh(name + '_dom', z3.ArraySort(I, BA)), ex.fresh(name + '_val', PVAL))
        return v
    return _orig_havoc_p(ex, st, v, name, mutated)


M.havoc = havoc_p

_orig_try_p = M.try_stmt


def try_stmt_p(ex, st, s):
    if _on_pairs(ex) and not s.orelse and not s.finalbody and len(s.handlers) == 1 and s.handlers[0].name is None \
            and isinstance(s.handlers[0].type, ast.Name) and s.handlers[0].type.id == 'KeyError' and len(s.body) == 1 \
            and isinstance(s.body[0], ast.Assign) and len(s.body[0].targets) == 1 and isinstance(s.body[0].targets[0], ast.Name) \
            and isinstance(s.body[0].value, ast.Subscript) and isinstance(s.body[0].value.value, ast.Name):
        b = st.deref(st.vars.get(s.body[0].value.value.id))
        if isinstance(b, MaskCache):
            a, c = _pair_key(ex, st, s.body[0].value.slice)
            used('try: x = cache[a, b] / except KeyError: handler -> the handler runs iff (a, b) is not a key (nothing else in the body can raise)')
            if ex.decide(st, b.has[a][c], s):
                st.vars[s.body[0].targets[0].id] = _cache_get(b, a, c)
                return [(st, symex.NORMAL)]
            return ex.exec_block(s.handlers[0].body, st)
    return _orig_try_p(ex, st, s)


M.try_stmt = try_stmt_p

_orig_binop_p = M.arr_binop


def arr_binop_p(ex, st, op, l, r, node):
    if _on_pairs(ex) and isinstance(op, ast.BitAnd) and _is_bvec(l) and _is_bvec(r):
        ex.oblige(st, 'call-pre', 'elementwise-shapes-agree', Z(l.shape[0]) == Z(r.shape[0]), node)
        used('m1 & m2 of two boolean masks -> elementwise conjunction')
        mk = ex.fresh('and', BA)
        i = z3.Int('i!ba')
        st.assume(z3.ForAll([i], mk[i] == z3.And(l.t[i], r.t[i]), patterns=[mk[i]]))
        return VArr(l.shape, mk, 'bvec', 'b')
    return _orig_binop_p(ex, st, op, l, r, node)


M.arr_binop = arr_binop_p

_orig_method_p = M.method


def method_p(ex, st, recv, name, args, kwargs, node):
    r = st.deref(recv)
    if _on_pairs(ex) and _is_bvec(r) and name in ('sum', 'any') and not args and not kwargs:
        used('mask.sum() / mask.any() of a boolean mask -> bcnt(mask, n), the number of selected positions / bcnt(mask, n) >= 1')
        c = bcnt(r.t, Z(r.shape[0]))
        return c if name == 'sum' else c >= 1
    if isinstance(r, MaskSel) and name == 'mean':
        return np_mean(ex, st, [r] + list(args), kwargs, node)         # y[mask].mean(): the same statement as np.mean(y[mask])
    return _orig_method_p(ex, st, recv, name, args, kwargs, node)


M.method = method_p

_orig_index_p = M.arr_index


def arr_index_p(ex, st, a, sl_, node):
    if _on_pairs(ex) and isinstance(a, VArr) and a.ndim == 1 and a.tag == 'rvec' and a.t is not None and isinstance(sl_, ast.Name):
        mk = st.deref(ex.ev(sl_, st))
        if _is_bvec(mk) and getattr(mk, 'eq_src', None) is None:
            used('y[mask] -> the sub-vector of y at the selected positions (requires equal lengths)')
            ex.oblige(st, 'call-pre', 'mask-length-is-the-vector-length', Z(mk.shape[0]) == Z(a.shape[0]), node)
            nsel = ex.fresh_int('nsel')
            st.assume(nsel == bcnt(mk.t, Z(a.shape[0])))
            return MaskSel(nsel, a.t, mk.t, Z(a.shape[0]))
    return _orig_index_p(ex, st, a, sl_, node)


M.arr_index = arr_index_p


def np_mean(ex, st, args, kwargs, node):
    """np.mean for anova.ANOVA.build_2 (handed to the unit through `callees`); other patterns: mx_anova.np_mean."""
    from ttvc import mx_anova
    v = st.deref(args[0]) if len(args) == 1 and not kwargs else None
    if isinstance(v, MaskSel):
        used('np.mean(y[mask]) -> mmean(y, mask, n), a function of the data; requires a non-empty selection (nan + warning otherwise)')
        ex.oblige(st, 'safety', 'mean-of-a-non-empty-selection', bcnt(v.mask, v.n) >= 1, node)
        return mmean(v.y, v.mask, v.n)
    return mx_anova.np_mean(ex, st, args, kwargs, node)


def pair_table_seq(ex, st, arr=None, n=None):
    """A Python list of PairMaps (symbolic length): element k is the table with code arr[k] (t2dom / t2val of mx_anova)."""
    from ttvc import mx_anova
    seq = VSeq(arr if arr is not None else ex.fresh('tables2', IA), n if n is not None else z3.IntVal(0),
               lambda c: PairMap(mx_anova.T2DOM(c), mx_anova.T2VAL(c), frozen=True), tag='tables2')

    def unwrap(ex_, st_, v, node):
        o = st_.deref(v)
        if not isinstance(o, PairMap):
            raise ContractMismatch('what is appended to the list of pair tables is not a dict from pairs of indices to reals')
        if isinstance(v, VRef):
            st_.heap[v.oid].frozen = True
        c = ex_.fresh_int('table2')
        st_.assume(mx_anova.T2VAL(c) == o.val, mx_anova.T2DOM(c) == o.dom)
        return c
    seq.unwrap = unwrap
    return st.alloc(seq)
