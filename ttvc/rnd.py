"""Model-table entries for the random-generator calls and the multiset bookkeeping of teneva/sample.py (C14).
Integer vectors carry a counting function cnt(vec, v) = number of positions holding the value v (uninterpreted; each
constructor states the counts of its result)."""
import ast
import z3
from ttvc.symex import Unsupported, NONE, VStr, VOpt, VTuple, VRef, VList, VArr, VOpaque, Z, is_num, is_intsort
from ttvc import models as M, theory as T
from ttvc.models import model, used

IA = z3.ArraySort(z3.IntSort(), z3.IntSort())
cnt = z3.Function('cnt', IA, z3.IntSort(), z3.IntSort())
_v = z3.Int('v!c')


class VGen:
    """A numpy Generator object (only its identity / provenance matters)."""
    def __init__(self, origin):
        self.origin = origin


def call_rand(ex, st, args, kwargs, node):
    seed = args[0] if args else kwargs.get('seed', NONE)
    if isinstance(seed, VGen):
        return seed
    used('teneva._rand(seed) -> numpy Generator derived from the seed (contract proved by unit utils._rand)')
    return VGen('seed')


M.CALLEES['utils._rand'] = call_rand


def ivec(ex, st, n, name):
    arr = ex.fresh(name, IA)
    return VArr((n,), arr, 'ivec', 'i'), arr


_orig_arange = M.FUNCS['np.arange']


@model('np.arange')
def m_arange(ex, st, args, kwargs, node):
    out = _orig_arange(ex, st, args, kwargs, node)
    if isinstance(out, VArr) and out.tag == 'ivec':
        k = Z(out.shape[0])
        st.assume(z3.ForAll([_v], cnt(out.t, _v) == z3.If(z3.And(0 <= _v, _v < k), 1, 0), patterns=[cnt(out.t, _v)]))
    return out


@model('np.repeat')
def m_repeat(ex, st, args, kwargs, node):
    a = st.deref(args[0])
    c = Z(ex.need_num(st, args[1], node))
    if isinstance(a, VArr) and a.ndim == 1 and a.tag == 'ivec' and not kwargs:
        used('np.repeat(v, c) -> every element c times: length c * len v, counts multiplied by c (requires c >= 0)')
        ex.oblige(st, 'call-pre', 'repeat-count-non-negative', c >= 0, node)
        out, arr = ivec(ex, st, Z(a.shape[0]) * c, 'rep')
        st.assume(z3.ForAll([_v], cnt(arr, _v) == c * cnt(a.t, _v), patterns=[cnt(arr, _v)]))
        return out
    raise Unsupported('np.repeat pattern')


_orig_concat = M.FUNCS['np.concatenate']


@model('np.concatenate')
def m_concat(ex, st, args, kwargs, node):
    parts = st.deref(args[0])
    if isinstance(parts, (VList, VTuple)) and len(parts.items) == 2 and not kwargs and len(args) == 1:
        a, b = [st.deref(x) for x in parts.items]
        if isinstance(a, VArr) and isinstance(b, VArr) and a.ndim == 1 and b.ndim == 1 and a.tag == 'ivec' and b.tag == 'ivec':
            used('np.concatenate([u, v]) for vectors -> lengths and counts add up')
            out, arr = ivec(ex, st, Z(a.shape[0]) + Z(b.shape[0]), 'cat')
            st.assume(z3.ForAll([_v], cnt(arr, _v) == cnt(a.t, _v) + cnt(b.t, _v), patterns=[cnt(arr, _v)]))
            return out
    return _orig_concat(ex, st, args, kwargs, node)


def nl_floordiv(ex, st, a, b, node):
    """m // k for a symbolic positive divisor: the integer q with k q <= m < k q + k."""
    used('m // k (k > 0) -> q with k*q <= m < k*q + k')
    ex.oblige(st, 'safety', 'floor-division-by-positive', b > 0, node)
    q = ex.fresh_int('quot')
    st.assume(b * q <= a, a < b * q + b, z3.Implies(a >= 0, q >= 0))
    # the same fact for the uninterpreted product of dimensions that `(m // k) * k` evaluates to (mulI is the product by definition)
    pq = T.mul_canon(b, q)
    st.assume(pq <= a, a < pq + b)
    st.ghost.setdefault('floordiv', []).append((a, b, q))
    return q


M.nl_floordiv = nl_floordiv
_orig_method = M.method


def method(ex, st, recv, name, args, kwargs, node):
    r = st.deref(recv)
    if isinstance(r, VGen):
        if name == 'choice':
            k = Z(ex.need_num(st, args[0], node))
            s = Z(ex.need_num(st, args[1], node)) if len(args) > 1 else None
            repl = kwargs.get('replace', True)
            if s is not None and repl is False and 'p' not in kwargs:
                used('Generator.choice(k, s, replace=False) -> s distinct integers in [0, k); requires 0 <= s <= k')
                ex.oblige(st, 'call-pre', 'choice-without-replacement-needs-0<=size<=population', z3.And(s >= 0, s <= k, k >= 0), node)
                out, arr = ivec(ex, st, s, 'choice')
                st.assume(z3.ForAll([_v], z3.And(cnt(arr, _v) >= 0, cnt(arr, _v) <= z3.If(z3.And(0 <= _v, _v < k), 1, 0),
                                                 cnt(arr, _v) <= s), patterns=[cnt(arr, _v)]))
                st.ghost['draws'] = st.ghost.get('draws', 0) + 1
                return out
            raise Unsupported('Generator.choice calling pattern')
        if name == 'integers' and len(args) == 3 and not kwargs:
            lo, hi, s = [Z(ex.need_num(st, a, node)) for a in args]
            used('Generator.integers(lo, hi, s) -> s integers in [lo, hi), drawn WITH replacement (values may repeat); requires lo < hi, s >= 0')
            ex.oblige(st, 'call-pre', 'integers-needs-a-non-empty-range-and-a-non-negative-size', z3.And(lo < hi, s >= 0), node)
            out, arr = ivec(ex, st, s, 'integers')
            st.assume(z3.ForAll([_v], z3.And(cnt(arr, _v) >= 0, cnt(arr, _v) <= z3.If(z3.And(lo <= _v, _v < hi), s, 0)), patterns=[cnt(arr, _v)]))
            st.ghost['draws'] = st.ghost.get('draws', 0) + 1
            return out
        if name == 'normal' and 'size' in kwargs:
            shp = M.shape_arg(ex, st, kwargs['size'], node)
            used('Generator.normal(size=shape) -> array of that shape with arbitrary real entries')
            st.ghost['draws'] = st.ghost.get('draws', 0) + 1
            if len(shp) == 3:
                t = ex.fresh('noise', T.Core)
                st.assume(T.d0(t) == Z(shp[0]), T.d1(t) == Z(shp[1]), T.d2(t) == Z(shp[2]))
                return M.mk_core(t)
            return VArr(tuple(shp), None, None)
        if name == 'shuffle':
            used('Generator.shuffle(x) -> permutes x in place (counts unchanged)')
            st.ghost['draws'] = st.ghost.get('draws', 0) + 1
            return NONE
        raise Unsupported(f'Generator.{name}')
    return _orig_method(ex, st, recv, name, args, kwargs, node)


M.method = method
_orig_store = M.store


def store(ex, st, base, sl_, v, node, base_node):
    b = st.deref(base)
    val = st.deref(v)
    # I[:, i] = vec : a whole column of an integer matrix
    if isinstance(b, VArr) and b.ndim == 2 and isinstance(sl_, ast.Tuple) and len(sl_.elts) == 2 \
            and isinstance(sl_.elts[0], ast.Slice) and sl_.elts[0].lower is None and sl_.elts[0].upper is None \
            and isinstance(val, VArr) and val.ndim == 1 and val.tag == 'ivec' and isinstance(base_node, ast.Name):
        col = Z(ex.need_num(st, ex.ev(sl_.elts[1], st), node))
        used('I[:, i] = v -> column assignment; requires len v = number of rows and a valid column')
        ex.oblige(st, 'call-pre', 'column-assignment-length-matches', Z(val.shape[0]) == Z(b.shape[0]), node)
        ex.oblige(st, 'safety', 'col-index-in-range', z3.And(col >= 0, col < Z(b.shape[1])), node)
        st.ghost.setdefault('columns', []).append((col, val))
        return
    return _orig_store(ex, st, base, sl_, v, node, base_node)


M.store = store


@model('np.random.default_rng')
def m_default_rng(ex, st, args, kwargs, node):
    seed = args[0] if args else NONE
    used('np.random.default_rng(seed) -> a fresh Generator determined by the seed (fresh OS entropy for None)')
    return VGen(('default_rng', seed))
