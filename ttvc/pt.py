"""Pointwise tier: arrays that are only combined elementwise are represented by ONE generic element (a z3 Int/Real
term `el`, tag 'pt'); every array of a run is observed at the same (arbitrary) position.  Sound for code whose
array operations are elementwise with equal / broadcast-compatible shapes, which the shape obligations check
(equal shapes) or the call-site contracts of grid_prep_opt(s) provide (options broadcast to the shape of the data).
Used for the grid maps of teneva/grid.py (C18) over the reals (A-REAL)."""
import ast
import z3
from ttvc.symex import Unsupported, NONE, VStr, VOpt, VTuple, VArr, Z, is_num, is_intsort
from ttvc import models as M, theory as T
from ttvc.models import model, used, to_real

cosf = z3.Function('cos', z3.RealSort(), z3.RealSort())
acosf = z3.Function('arccos', z3.RealSort(), z3.RealSort())
_x, _y = z3.Reals('x!t y!t')
TRIG = [
    # what is used of cos / arccos on [0, pi] (A-REAL): range, end points, strict monotonicity, inverse
    z3.ForAll([_x], z3.And(cosf(_x) >= -1, cosf(_x) <= 1), patterns=[cosf(_x)]),
    cosf(0) == 1, cosf(M.PI) == -1, M.PI > 3, M.PI < 4,
    z3.ForAll([_x, _y], z3.Implies(z3.And(0 <= _x, _x < _y, _y <= M.PI), cosf(_x) > cosf(_y)),
              patterns=[z3.MultiPattern(cosf(_x), cosf(_y))]),
    z3.ForAll([_x], z3.Implies(z3.And(0 <= _x, _x <= M.PI), acosf(cosf(_x)) == _x), patterns=[cosf(_x)]),
    z3.ForAll([_x], z3.Implies(z3.And(-1 <= _x, _x <= 1), z3.And(acosf(_x) >= 0, acosf(_x) <= M.PI, cosf(acosf(_x)) == _x)),
              patterns=[acosf(_x)]),
]


def pt(shape, el, dtype=None):
    dt = dtype or ('i' if is_intsort(el) else ('b' if isinstance(el, z3.BoolRef) else 'f'))
    return VArr(shape, Z(el), 'pt', dt)


def is_pt(v):
    return isinstance(v, VArr) and v.tag == 'pt'


def _el(ex, st, v, node):
    if is_pt(v):
        return v.t
    return Z(ex.need_num(st, v, node))


def _shape(l, r):
    a = l if is_pt(l) else r
    return a.shape


_orig_binop = M.arr_binop


def arr_binop(ex, st, op, l, r, node):
    if is_pt(l) or is_pt(r):
        if isinstance(l, VArr) and isinstance(r, VArr) and not (is_pt(l) and is_pt(r)):
            raise Unsupported('pointwise array combined with a non-pointwise array')
        if is_pt(l) and is_pt(r) and l.ndim == r.ndim:
            for a, b in zip(l.shape, r.shape):
                ex.oblige(st, 'call-pre', 'elementwise-shapes-agree', Z(a) == Z(b), node)
        used('elementwise arithmetic on arrays -> the same operation on the generic element')
        a, b = _el(ex, st, l, node), _el(ex, st, r, node)
        res = ex.arith(st, op, a, b, node)
        out = pt(_shape(l, r), res)
        g = [getattr(v, 'gathered_by', None) for v in (l, r) if is_pt(v)]
        if g and all(x is not None for x in g) and all(z3.eq(x, g[0]) for x in g):
            out.gathered_by = g[0]
        return out
    return _orig_binop(ex, st, op, l, r, node)


M.arr_binop = arr_binop
_orig_unary = M.arr_unary


def arr_unary(ex, st, op, v, node):
    if is_pt(v) and isinstance(op, ast.USub):
        out = pt(v.shape, -v.t)
        if getattr(v, 'gathered_by', None) is not None:
            out.gathered_by = v.gathered_by
        return out
    return _orig_unary(ex, st, op, v, node)


M.arr_unary = arr_unary
_orig_compare = M.arr_compare


def arr_compare(ex, st, op, l, r, node):
    if is_pt(l) or is_pt(r):
        a, b = _el(ex, st, l, node), _el(ex, st, r, node)
        f = {ast.Lt: lambda x, y: x < y, ast.LtE: lambda x, y: x <= y, ast.Gt: lambda x, y: x > y,
             ast.GtE: lambda x, y: x >= y, ast.Eq: lambda x, y: x == y, ast.NotEq: lambda x, y: x != y}[type(op)]
        return pt(_shape(l, r), f(a, b), 'b')
    return _orig_compare(ex, st, op, l, r, node)


M.arr_compare = arr_compare
_orig_store = M.store


def store(ex, st, base, sl_, v, node, base_node):
    b = st.deref(base)
    if is_pt(b) and isinstance(base_node, ast.Name):
        mask = st.deref(ex.ev(sl_, st))
        if is_pt(mask) and mask.dtype == 'b':
            used('A[mask] = value (scalar or A2[mask]) -> elementwise selection on the generic element')
            val = st.deref(v)
            if is_pt(val):
                if getattr(val, 'gathered_by', None) is None or not z3.eq(val.gathered_by, mask.t):
                    raise Unsupported('masked assignment from an array that was not gathered by the same mask')
                ve = val.t
            else:
                ve = Z(ex.need_num(st, val, node))
            be = b.t
            if ve.sort() != be.sort():
                ve, be = to_real(ve), to_real(be)
            st.vars[base_node.id] = pt(b.shape, z3.If(mask.t, ve, be))
            return
        raise Unsupported('store into a pointwise array')
    return _orig_store(ex, st, base, sl_, v, node, base_node)


M.store = store
_orig_index = M.arr_index


def arr_index(ex, st, a, sl_, node):
    if is_pt(a):
        if not isinstance(sl_, (ast.Tuple, ast.Slice)):
            m = st.deref(ex.ev(sl_, st))
            if is_pt(m) and m.dtype == 'b':
                used('A[mask] -> the elements where mask holds (aligned with other arrays gathered by the same mask)')
                out = pt((ex.fresh_int('nsel'),), a.t)
                out.gathered_by = m.t
                return out
        raise Unsupported('indexing of a pointwise array')
    return _orig_index(ex, st, a, sl_, node)


M.arr_index = arr_index
_orig_array = M.FUNCS['np.array']


def m_array(ex, st, args, kwargs, node):
    v = st.deref(args[0])
    if is_pt(v):
        dt = kwargs.get('dtype')
        if isinstance(dt, M.TypeVal) and dt.name == 'int' and not is_intsort(v.t):
            # conversion of an integer-valued float array (result of rint): the value is kept
            iv = getattr(v, 'intval', None)
            if iv is None:
                raise Unsupported('float -> int conversion of a pointwise array that is not integer valued')
            return pt(v.shape, iv)
        if isinstance(dt, M.TypeVal) and dt.name == 'float' and is_intsort(v.t):
            return pt(v.shape, z3.ToReal(v.t))
        return v
    return _orig_array(ex, st, args, kwargs, node)


for _n in ('np.array', 'np.asanyarray', 'np.asarray'):
    M.FUNCS[_n] = m_array


@model('np.rint')
def m_rint(ex, st, args, kwargs, node):
    v = st.deref(args[0])
    if not is_pt(v):
        raise Unsupported('np.rint of a non-pointwise value')
    used('np.rint(x) -> an integer r with |r - x| <= 1/2 (which neighbour is taken at a tie is not specified)')
    r = ex.fresh_int('rint')
    x = to_real(v.t)
    st.assume(z3.ToReal(r) - x <= z3.RealVal('1/2'), x - z3.ToReal(r) <= z3.RealVal('1/2'))
    out = pt(v.shape, z3.ToReal(r))
    out.intval = r
    return out


@model('np.cos')
def m_cos(ex, st, args, kwargs, node):
    v = st.deref(args[0])
    used('np.cos -> uninterpreted cos with range, end points, monotonicity on [0, pi] and arccos as inverse')
    if is_pt(v):
        return pt(v.shape, cosf(to_real(v.t)))
    return cosf(to_real(ex.need_num(st, v, node)))


@model('np.arccos')
def m_arccos(ex, st, args, kwargs, node):
    v = st.deref(args[0])
    if is_pt(v):
        ex.oblige(st, 'safety', 'arccos-argument-in-[-1,1]', z3.And(to_real(v.t) >= -1, to_real(v.t) <= 1), node)
        return pt(v.shape, acosf(to_real(v.t)))
    raise Unsupported('np.arccos of a non-pointwise value')
