"""Model-table entries and spec symbols for the LAYOUT-level contracts of contracts/strengthen_layout.py: statements that depend on
which entry of an array goes where (broadcasting along rows versus columns, Fortran- versus C-order reshapes).

Everything follows the wrapping pattern of kr.py (keep the previous hook, fall through to it) and is only active for executors that
carry the gate named at each part, or for the value class defined here - no other unit sees a different value than before.

Part A (gate `ex.layout_ent`): ENTRY-LEVEL float arrays.
  EArr   1-D / 2-D float array with `ent(i)` / `ent(i, j)`: the z3 Real term of that entry.  Elementwise operators, NumPy broadcasting
         of a 1-D operand against a 2-D one (the 1-D operand is aligned with the LAST axis: entry (j, k) uses v[k]), transposition,
         np.diag / np.tile / np.eye, the diagonal store  A[range(n), range(n)] = v  and row / column sums (np.sum(A, axis)) - the sum
         itself stays abstract: a fresh function rs(j), paired with its summand in the ghost list `esums`.
  Arrays computed by code that is NOT modelled at entry level enter through `ex.layout_abstract = {'Z', 'C'}` (variable names): such an
  array gets a fresh uninterpreted entry function the first time it meets an EArr operand ("some n x n array, entries unknown").  Nothing
  else is lifted: an EArr that meets an array without entries, or any operation on an EArr that is not modelled here, raises
  Unsupported (undecided) - information is never dropped silently.

Part B (gate `ex.layout`): MATRIX-LEVEL reshapes / row halves for core.core_tt_to_qtt (see the section header below).
"""
import ast
import z3
from ttvc import symex
from ttvc.symex import Unsupported, ContractMismatch, NONE, VStr, VOpt, VTuple, VRef, VList, VSeq, VArr, VOpaque, Z, is_num, \
    is_intsort, quick_unsat
from ttvc import models as M, theory as T
from ttvc.models import used, to_real

I, R = z3.IntSort(), z3.RealSort()


# ==============================================================================================
# Part A: entry-level float arrays

def ent_on(ex):
    return getattr(ex, 'layout_ent', False)


class EArr(VArr):
    """1-D / 2-D float array with an entry-level denotation (`ent`: indices -> z3 Real term)."""
    def __init__(self, shape, ent, note=''):
        super().__init__(shape, None, 'earr', 'f', note)
        self.ent = ent


def is_e(v, ndim=None):
    return isinstance(v, EArr) and (ndim is None or v.ndim == ndim)


def abstract_entries(ex, v, name):
    """The array `v` (2-D, no entry-level denotation) as an EArr with a fresh uninterpreted entry function (cached on the object)."""
    if getattr(v, '_lay_ent', None) is None:
        ex.cnt += 1
        f = z3.Function(f'{name}!ent{ex.cnt}', I, I, R)
        used(f'a 2-D float array computed outside the entry tier ({name}) -> an array of the same shape with unknown entries f(j, k)')
        v._lay_ent = EArr(v.shape, lambda j, k, f=f: f(Z(j), Z(k)), note=('abstract', name, f))
    return v._lay_ent


def _named_abstract(ex, v, n):
    """v if it is an EArr; its abstract lifting if `n` is the Name node of a variable declared abstract by the unit; else None."""
    if isinstance(v, EArr):
        return v
    if isinstance(v, VArr) and v.ndim == 2 and v.t is None and isinstance(n, ast.Name) and n.id in getattr(ex, 'layout_abstract', ()):
        return abstract_entries(ex, v, n.id)
    return None


def _provably(ex, st, f):
    return quick_unsat(list(ex.axioms) + list(st.pc) + [z3.Not(Z(f))])


def _real(x):
    return to_real(x)


_OPS = {ast.Add: lambda a, b: a + b, ast.Sub: lambda a, b: a - b, ast.Mult: lambda a, b: a * b}


def _ebin(ex, st, op, l, r, node):
    """Elementwise  l op r  with at least one EArr operand (the other: EArr, or a number)."""
    f = _OPS.get(type(op))
    if isinstance(op, ast.Div) and is_e(l) and is_num(r):
        c = ex.need_num(st, r, node)
        ex.oblige(st, 'safety', 'division-by-nonzero', Z(c) != 0, node)
        f = lambda a, b: a / b
    if f is None:
        raise Unsupported(f'operation {type(op).__name__} on an entry-level array at line {node.lineno}')
    if is_e(l) and is_num(r) or is_num(l) and is_e(r):
        a, c = (l, r) if is_e(l) else (r, l)
        c = _real(ex.need_num(st, c, node))
        used('number op array / array op number -> elementwise')
        g = (lambda *ix: f(a.ent(*ix), c)) if a is l else (lambda *ix: f(c, a.ent(*ix)))
        out = EArr(a.shape, g)
        if isinstance(op, ast.Mult):
            out.scaled_by = (a, c)
        return out
    if not (is_e(l) and is_e(r)):
        raise Unsupported(f'an entry-level array meets an operand without entry-level denotation at line {node.lineno}')
    if l.ndim == r.ndim:
        used('array op array of equal shapes -> elementwise')
        for a, b in zip(l.shape, r.shape):
            ex.oblige(st, 'call-pre', 'elementwise-shapes-agree', Z(a) == Z(b), node)
        return EArr(l.shape, lambda *ix: f(l.ent(*ix), r.ent(*ix)))
    if l.ndim == 2 and r.ndim == 1:
        used('2-D array op 1-D array -> NumPy broadcasting: the vector is aligned with the LAST axis, entry (j, k) uses v[k]')
        ex.oblige(st, 'call-pre', 'broadcast-trailing-dimension-agrees', Z(l.shape[1]) == Z(r.shape[0]), node)
        return EArr(l.shape, lambda j, k: f(l.ent(j, k), r.ent(k)))
    if l.ndim == 1 and r.ndim == 2:
        used('1-D array op 2-D array -> NumPy broadcasting: the vector is aligned with the LAST axis, entry (j, k) uses v[k]')
        ex.oblige(st, 'call-pre', 'broadcast-trailing-dimension-agrees', Z(l.shape[0]) == Z(r.shape[1]), node)
        return EArr(r.shape, lambda j, k: f(l.ent(k), r.ent(j, k)))
    raise Unsupported('broadcasting pattern of entry-level arrays')


_orig_binop = M.arr_binop


def arr_binop(ex, st, op, l, r, node):
    if ent_on(ex):
        ln, rn = (getattr(node, 'left', None), getattr(node, 'right', None)) if isinstance(node, ast.BinOp) else \
            (getattr(node, 'target', None), getattr(node, 'value', None))
        la, ra = _named_abstract(ex, l, ln) if isinstance(l, VArr) else None, _named_abstract(ex, r, rn) if isinstance(r, VArr) else None
        if isinstance(l, EArr) or isinstance(r, EArr) or (la is not None and is_num(r)) or (ra is not None and is_num(l)):
            l2 = l if not isinstance(l, VArr) else _named_abstract(ex, l, ln)
            r2 = r if not isinstance(r, VArr) else _named_abstract(ex, r, rn)
            if l2 is None or r2 is None:
                raise Unsupported(f'an entry-level array meets an array without entry-level denotation at line {node.lineno}')
            return _ebin(ex, st, op, l2, r2, node)
    return _orig_binop(ex, st, op, l, r, node)


M.arr_binop = arr_binop
_orig_unary = M.arr_unary


def arr_unary(ex, st, op, v, node):
    if isinstance(v, EArr):
        if isinstance(op, ast.USub):
            used('-array -> elementwise')
            return EArr(v.shape, lambda *ix: -v.ent(*ix))
        raise Unsupported('unary operation on an entry-level array')
    return _orig_unary(ex, st, op, v, node)


M.arr_unary = arr_unary
_orig_attribute = M.attribute


def attribute(ex, st, v, attr, node):
    if isinstance(v, EArr):
        if attr == 'T' and v.ndim == 2:
            used('A.T of a 2-D array -> transpose: entry (j, k) is A[k, j]')
            return EArr((v.shape[1], v.shape[0]), lambda j, k: v.ent(k, j))
        if attr == 'T' and v.ndim == 1:
            return v
        if attr not in ('shape', 'ndim', 'size', 'dtype'):
            raise Unsupported(f'attribute .{attr} of an entry-level array')
    return _orig_attribute(ex, st, v, attr, node)


M.attribute = attribute
_orig_index = M.arr_index


def arr_index(ex, st, a, sl_, node):
    if isinstance(a, EArr):
        elts = sl_.elts if isinstance(sl_, ast.Tuple) else [sl_]
        if len(elts) == a.ndim and not any(isinstance(e, ast.Slice) for e in elts):
            ix = [ex.ev(e, st) for e in elts]
            if all(is_num(x) and is_intsort(x) for x in ix):
                ix = [Z(M.norm_index(ex, st, x, n, node, 'array-index')) for x, n in zip(ix, a.shape)]
                used('A[i, j] / v[i] -> that entry')
                return a.ent(*ix)
        raise Unsupported(f'indexing pattern `{ast.unparse(sl_)}` on an entry-level array at line {node.lineno}')
    return _orig_index(ex, st, a, sl_, node)


M.arr_index = arr_index
_orig_method = M.method


def method(ex, st, recv, name, args, kwargs, node):
    r = st.deref(recv)
    if isinstance(r, EArr):
        if name == 'copy' and not args and not kwargs:
            used('ndarray.copy() -> same value, fresh buffer')
            return EArr(r.shape, r.ent)
        raise Unsupported(f'method .{name} on an entry-level array at line {node.lineno}')
    return _orig_method(ex, st, recv, name, args, kwargs, node)


M.method = method


def _range_arg(ex, st, e, node):
    """n if the index expression is `range(n)`, else None."""
    if isinstance(e, ast.Call) and ast.unparse(e.func) == 'range' and len(e.args) == 1 and not e.keywords:
        n = ex.need_num(st, ex.ev(e.args[0], st), node)
        return n if is_intsort(n) else None
    return None


_orig_setitem = M.arr_setitem


def arr_setitem(ex, st, b, sl_, v, node):
    if ent_on(ex) and isinstance(b, VArr) and b.ndim == 2 and isinstance(sl_, ast.Tuple) and len(sl_.elts) == 2:
        tgt = b if isinstance(b, EArr) else None
        n0, n1 = _range_arg(ex, st, sl_.elts[0], node), _range_arg(ex, st, sl_.elts[1], node)
        if n0 is not None and n1 is not None:
            if tgt is None:
                tgt = _named_abstract(ex, b, getattr(node, 'value', None))
            if tgt is not None:
                val = st.deref(v)
                if not (_provably(ex, st, z3.And(Z(n0) == Z(b.shape[0]), Z(n1) == Z(b.shape[1]), Z(n0) == Z(n1)))):
                    raise Unsupported('A[range(p), range(q)] = v: only the store to the WHOLE main diagonal of a square array is modelled')
                if is_num(val):
                    c = _real(ex.need_num(st, val, node))
                    used('A[range(n), range(n)] = c on an n x n array -> the diagonal entries become c, the others stay')
                    return EArr(b.shape, lambda j, k: z3.If(Z(j) == Z(k), c, tgt.ent(j, k)))
                if is_e(val, 1):
                    used('A[range(n), range(n)] = v on an n x n array (v of length n) -> A[j, j] = v[j], the other entries stay')
                    ex.oblige(st, 'call-pre', 'diagonal-store-length-matches', Z(val.shape[0]) == Z(b.shape[0]), node)
                    return EArr(b.shape, lambda j, k: z3.If(Z(j) == Z(k), val.ent(j), tgt.ent(j, k)))
                raise Unsupported('diagonal store of a value without entry-level denotation')
        if isinstance(b, EArr):
            raise Unsupported(f'store pattern `{ast.unparse(sl_)}` into an entry-level array at line {node.lineno}')
    elif isinstance(b, EArr):
        raise Unsupported(f'store pattern `{ast.unparse(sl_)}` into an entry-level array at line {node.lineno}')
    return _orig_setitem(ex, st, b, sl_, v, node)


M.arr_setitem = arr_setitem


def _prev(name):
    def h(ex, st, args, kwargs, node):
        f = M.FUNCS.get(name)
        if f is None:
            raise Unsupported(f'call of {name} at line {node.lineno}: not in the model table')
        return f(ex, st, args, kwargs, node)
    return h


def e_eye(ex, st, args, kwargs, node):
    if len(args) == 1 and not kwargs:
        n = ex.need_num(st, args[0], node)
        if is_intsort(n):
            used('np.eye(n) -> n x n identity: entry (j, k) is 1 if j == k else 0')
            ex.oblige(st, 'call-pre', 'non-negative-dimension', Z(n) >= 0, node)
            return EArr((n, n), lambda j, k: z3.If(Z(j) == Z(k), z3.RealVal(1), z3.RealVal(0)))
    return _prev('np.eye')(ex, st, args, kwargs, node)


def e_diag(ex, st, args, kwargs, node):
    v = st.deref(args[0]) if args else None
    if isinstance(v, EArr):
        if len(args) == 1 and not kwargs and v.ndim == 2:
            used('np.diag(A) of a square 2-D array -> its main diagonal: entry j is A[j, j]')
            ex.oblige(st, 'call-pre', 'diag-of-a-square-matrix', Z(v.shape[0]) == Z(v.shape[1]), node)
            return EArr((v.shape[0],), lambda j: v.ent(j, j))
        raise Unsupported('np.diag pattern on an entry-level array')
    return _prev('np.diag')(ex, st, args, kwargs, node)


def e_tile(ex, st, args, kwargs, node):
    v = st.deref(args[0]) if args else None
    if isinstance(v, EArr):
        reps = st.deref(args[1]) if len(args) == 2 else None
        if not kwargs and v.ndim == 1 and isinstance(reps, (VTuple, VList)) and len(reps.items) == 2 and isinstance(reps.items[1], int) \
                and reps.items[1] == 1:
            r = ex.need_num(st, reps.items[0], node)
            used('np.tile(v, (r, 1)) of a 1-D array -> r x len(v) array whose every ROW is v: entry (j, k) is v[k]')
            ex.oblige(st, 'call-pre', 'non-negative-repetition-count', Z(r) >= 0, node)
            return EArr((r, v.shape[0]), lambda j, k: v.ent(k))
        raise Unsupported('np.tile pattern on an entry-level array')
    return _prev('np.tile')(ex, st, args, kwargs, node)


def e_sum(ex, st, args, kwargs, node):
    v = st.deref(args[0]) if args else None
    if isinstance(v, EArr):
        ax = kwargs.get('axis', args[1] if len(args) == 2 else None)
        if v.ndim == 2 and isinstance(ax, int) and not isinstance(ax, bool) and ax in (0, 1, -1, -2) and len(args) <= 2 and set(kwargs) <= {'axis'}:
            ax = ax % 2
            ex.cnt += 1
            rs = z3.Function(f'esum!{ex.cnt}', I, R)
            used('np.sum(A, axis) of a 2-D array -> vector of the row sums (axis=1) / column sums (axis=0); the sum stays abstract '
                 '(a fresh function paired with its summand)')
            st.ghost['esums'] = st.ghost.get('esums', []) + [dict(A=v, axis=ax, fn=rs)]
            return EArr((v.shape[1 - ax],), lambda j, rs=rs: rs(Z(j)))
        raise Unsupported('np.sum pattern on an entry-level array')
    return _prev('np.sum')(ex, st, args, kwargs, node)


def _e_const(name, c):
    def h(ex, st, args, kwargs, node):
        shp = st.deref(args[0]) if len(args) == 1 and not kwargs else None
        if isinstance(shp, (VTuple, VList)) and len(shp.items) == 2 and all(is_num(x) and is_intsort(x) for x in shp.items):
            used(f'{name}((m, n)) -> m x n array whose every entry is {c}')
            for x in shp.items:
                ex.oblige(st, 'call-pre', 'non-negative-dimension', Z(x) >= 0, node)
            return EArr(tuple(shp.items), lambda j, k: z3.RealVal(c))
        return _prev(name)(ex, st, args, kwargs, node)
    return h


ENTRY_CALLEES = {'np.eye': e_eye, 'np.diag': e_diag, 'np.tile': e_tile, 'np.sum': e_sum, 'np.ones': _e_const('np.ones', 1),
                 'np.zeros': _e_const('np.zeros', 0)}


# ==============================================================================================
# Part B (gate `ex.layout`): matrix-level statements about reshapes in Fortran / C order and about row halves, for core.core_tt_to_qtt.
#
# Spec symbols (every axiom group below is exercised by lemmas/spotcheck.py through lemmas/spotcheck_ext_layout.py):
#   colblk(A, j, w)   = A[:, j*w:(j+1)*w]                                   column block j of width w
#   foldRC(A, n, r2)  = np.reshape(A, (rows(A), n, r2), order='C')          G[a, t, c] = A[a, t*r2 + c]: slice t is COLUMN BLOCK t
#                       (the Fortran-order fold foldR of theory.py has the strided slice colsel instead)
#   unfLC(G)          = np.reshape(G, (r1*n, r2), order='C')                shape axiom only (the Fortran unfolding unfL is the one with
#                       row blocks = mode slices)
#   pval(a, m)        = sum_{b < m} a[b] 2^b   for binary digits a[b]      value of the m lowest digits (little endian)
# Groups: 'layout' (shapes, slices of foldRC, column blocks of hcat / of a product), 'rowblk2' (a row block of a row block - hint
# instances only, never in an e-matching set: the index t*K + s is a product), 'pval' (recursion, two-variable pattern), 'chain2'
# (the recursion of theory.chain with a two-variable pattern: no matching loop).
# Models (all only with `ex.layout`): teneva._reshape with one inferred dimension and a denotation (`lay_reshape`, to be passed as the
# callee 'utils._reshape' of the unit), the row halves A[:k] / A[k:] of a matrix with 2k rows.

colblk = z3.Function('colblk', T.Mat, I, I, T.Mat)
foldRC = z3.Function('foldRC', T.Mat, I, I, T.Core)
unfLC = z3.Function('unfLC', T.Core, T.Mat)
pval = z3.Function('pval', T.IDX, I, I)

_a, _b = z3.Consts('a!y b!y', T.Mat)
_G = z3.Const('G!y', T.Core)
_j, _w, _m, _n, _t, _s, _K, _M = z3.Ints('j!y w!y m!y n!y t!y s!y K!y M!y')
_ix = z3.Const('ix!y', T.IDX)
_Y = z3.Const('Y!y', T.TT)

T.GROUPS['layout'] = [
    T.A([_a, _j, _w], z3.And(T.rows(colblk(_a, _j, _w)) == T.rows(_a), T.cols(colblk(_a, _j, _w)) == _w), [colblk(_a, _j, _w)]),
    T.A([_a, _m, _n], z3.And(T.d0(foldRC(_a, _m, _n)) == T.rows(_a), T.d1(foldRC(_a, _m, _n)) == _m, T.d2(foldRC(_a, _m, _n)) == _n),
        [foldRC(_a, _m, _n)]),
    T.A([_a, _m, _n, _j], z3.Implies(z3.And(0 <= _j, _j < _m, _n >= 1, T.cols(_a) == T.mulI(_m, _n)), T.sl(foldRC(_a, _m, _n), _j) == colblk(_a, _j, _n)),
        [T.sl(foldRC(_a, _m, _n), _j)]),
    T.A([_a, _b], z3.Implies(z3.And(T.rows(_a) == T.rows(_b), T.cols(_a) == T.cols(_b), T.cols(_a) >= 1),
                             z3.And(colblk(T.hcat(_a, _b), 0, T.cols(_a)) == _a, colblk(T.hcat(_a, _b), 1, T.cols(_a)) == _b)), [T.hcat(_a, _b)]),
    T.A([_a, _b, _j, _w], z3.Implies(T.cols(_a) == T.rows(_b), colblk(T.mm(_a, _b), _j, _w) == T.mm(_a, colblk(_b, _j, _w))),
        [colblk(T.mm(_a, _b), _j, _w)]),
    T.A([_G], z3.And(T.rows(unfLC(_G)) == T.mulI(T.d0(_G), T.d1(_G)), T.cols(unfLC(_G)) == T.d2(_G)), [unfLC(_G)]),
]
# rows [ (t*K + s)*m, (t*K + s + 1)*m ) of A are rows [ s*m, (s+1)*m ) of the t-th block of K*m rows   (hints only)
T.GROUPS['rowblk2'] = [
    T.A([_a, _t, _s, _K, _m, _M], z3.Implies(z3.And(_K >= 1, _m >= 1, 0 <= _s, _s < _K, _t >= 0, _M == T.mulI(_K, _m)),
                                             T.rowblk(T.rowblk(_a, _t, _M), _s, _m) == T.rowblk(_a, _t * _K + _s, _m)),
        [z3.MultiPattern(T.rowblk(T.rowblk(_a, _t, _M), _s, _m), T.mulI(_K, _m))]),
]
T.GROUPS['pval'] = [
    T.A([_ix], pval(_ix, 0) == 0, [pval(_ix, 0)]),
    T.A([_ix, _m, _n], z3.Implies(z3.And(_m >= 0, _n == _m + 1, z3.Or(_ix[_m] == 0, _ix[_m] == 1)),
                                  pval(_ix, _n) == pval(_ix, _m) + z3.If(_ix[_m] == 1, T.pow2(_m), 0)),
        [z3.MultiPattern(pval(_ix, _m), pval(_ix, _n))]),
]
T.GROUPS['chain2'] = [
    T.A([_Y, _ix], T.chain(_Y, _ix, 0) == T.sl(_Y[0], _ix[0]), [T.chain(_Y, _ix, 0)]),
    T.A([_Y, _ix, _m, _n], z3.Implies(z3.And(_m >= 0, _n == _m + 1), T.chain(_Y, _ix, _n) == T.mm(T.chain(_Y, _ix, _m), T.sl(_Y[_n], _ix[_n]))),
        [z3.MultiPattern(T.chain(_Y, _ix, _m), T.chain(_Y, _ix, _n))]),
]


def rowblk2(a, t, s, K, m, M):
    """Instance of 'rowblk2' (a hint)."""
    return z3.Implies(z3.And(K >= 1, m >= 1, 0 <= s, s < K, t >= 0, M == T.mulI(K, m)),
                      T.rowblk(T.rowblk(a, t, M), s, m) == T.rowblk(a, t * K + s, m))


def lay_on(ex):
    return getattr(ex, 'layout', False)


def is_mat(v):
    return isinstance(v, VArr) and v.ndim == 2 and v.tag == 'mat' and v.t is not None


def is_core(v):
    return isinstance(v, VArr) and v.ndim == 3 and v.tag == 'core' and v.t is not None


def _is_m1(x):
    return isinstance(x, int) and not isinstance(x, bool) and x == -1


def lay_reshape(ex, st, args, kwargs, node):
    """teneva._reshape(A, shape, order='F') with ONE inferred dimension, for operands that have a denotation (gate `ex.layout`; pass as
    callees={'utils._reshape': lay_reshape}).  Everything else goes to the model table as before."""
    a = st.deref(args[0]) if args else None
    if lay_on(ex) and len(args) >= 2 and (is_mat(a) or is_core(a)):
        order = kwargs.get('order', args[2] if len(args) > 2 else VStr('F'))
        o = order.concrete() if isinstance(order, VStr) else None
        dims = M.shape_arg(ex, st, args[1], node)
        if o not in ('F', 'C') or set(kwargs) - {'order'} or len(args) > 3 or sum(1 for x in dims if _is_m1(x)) != 1:
            raise Unsupported(f'_reshape pattern at line {node.lineno}: only one inferred dimension and a literal order are modelled in the layout tier')
        pos = lambda *xs: ex.oblige(st, 'call-pre', 'reshape-with-an-inferred-dimension-needs-positive-given-dimensions',
                                    z3.And([Z(x) >= 1 for x in xs]), node)
        if is_core(a) and len(dims) == 2 and _is_m1(dims[0]) and _provably(ex, st, Z(dims[1]) == Z(a.shape[2])):
            pos(dims[1])
            rows = T.mul_canon(a.shape[0], a.shape[1])
            if o == 'F':
                used("_reshape(G, (-1, r2)) (Fortran order) -> unfL(G): row a + r1*i holds G[a, i, :], i.e. row block i is the slice G[:, i, :]")
                return VArr((rows, a.shape[2]), T.unfL(a.t), 'mat')
            used("reshape(G, (-1, r2), order='C') -> unfLC(G): row a*n + i holds G[a, i, :] (no row-block statement)")
            return VArr((rows, a.shape[2]), unfLC(a.t), 'mat')
        if is_mat(a) and len(dims) == 3 and _is_m1(dims[0]) and _provably(ex, st, Z(a.shape[1]) == T.mul_canon(dims[1], dims[2])):
            pos(dims[1], dims[2])
            if o == 'C':
                used("reshape(V, (-1, n, r2), order='C') -> foldRC(V, n, r2): G[b, t, c] = V[b, t*r2 + c], slice t is column block t")
                return VArr((a.shape[0], dims[1], dims[2]), foldRC(a.t, Z(dims[1]), Z(dims[2])), 'core')
            used("_reshape(V, (-1, n, r2)) (Fortran order) -> foldR(V, n, r2): G[b, t, c] = V[b, t + n*c], slice t is the strided column selection")
            return VArr((a.shape[0], dims[1], dims[2]), T.foldR(a.t, Z(dims[1]), Z(dims[2])), 'core')
        if is_mat(a) and len(dims) == 3 and _is_m1(dims[2]) and _provably(ex, st, Z(a.shape[0]) == T.mul_canon(dims[0], dims[1])):
            pos(dims[0], dims[1])
            if o == 'F':
                used("_reshape(A, (r1, n, -1)) (Fortran order) -> foldL(A, r1, n): G[a, t, c] = A[a + r1*t, c], slice t is row block t")
                return VArr((dims[0], dims[1], a.shape[1]), T.foldL(a.t, Z(dims[0]), Z(dims[1])), 'core')
            used("reshape(A, (r1, n, -1), order='C') -> foldLC(A, r1, n): G[a, t, c] = A[a*n + t, c] (a row permutation of the Fortran fold)")
            return VArr((dims[0], dims[1], a.shape[1]), T.foldLC(a.t, Z(dims[0]), Z(dims[1])), 'core')
        raise Unsupported(f'_reshape pattern {a.shape} -> {dims} at line {node.lineno} (layout tier)')
    return _prev('teneva._reshape')(ex, st, args, kwargs, node)


_orig_index_b = M.arr_index


def arr_index_b(ex, st, a, sl_, node):
    if lay_on(ex) and is_mat(a) and isinstance(sl_, ast.Slice) and sl_.step is None and (sl_.lower is None) != (sl_.upper is None):
        kk = ex.need_num(st, ex.ev(sl_.upper if sl_.lower is None else sl_.lower, st), node)
        if is_intsort(kk):
            k = Z(kk)
            if not _provably(ex, st, Z(a.shape[0]) == 2 * k):
                raise Unsupported(f'row slice `{ast.unparse(sl_)}` at line {node.lineno}: only the two halves A[:k] / A[k:] of a matrix with 2k rows are modelled in the layout tier')
            ex.oblige(st, 'safety', 'row-half-is-non-empty', k >= 1, node)
            if sl_.lower is None:
                used('A[:k] of a matrix with 2k rows -> rowblk(A, 0, k), the upper half')
                return VArr((kk, a.shape[1]), T.rowblk(a.t, 0, k), 'mat')
            used('A[k:] of a matrix with 2k rows -> rowblk(A, 1, k), the lower half')
            return VArr((kk, a.shape[1]), T.rowblk(a.t, 1, k), 'mat')
    return _orig_index_b(ex, st, a, sl_, node)


M.arr_index = arr_index_b


def strict_cores(name='Y'):
    """Type hint for `Y = []` that grows by append: a list of cores in which EVERY stored value must carry a denotation (otherwise
    the contract does not fit the source: ContractMismatch, never a silent loss of information)."""
    def unwrap(ex, st, v, node):
        v = st.deref(v)
        if not is_core(v):
            raise ContractMismatch(f'a value without a core denotation is stored into the list {name} (line {getattr(node, "lineno", "?")})')
        return v.t

    def mk(ex, st):
        return st.alloc(VSeq(ex.fresh('empty', T.TT), z3.IntVal(0), M.mk_core, tag='core', unwrap=unwrap))
    return mk
