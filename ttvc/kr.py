"""Model-table entries for the Kronecker cores of act_two.mul / mul_scalar:
    G = G1[:, None, :, :, None] * G2[None, :, :, None, :];  G.reshape([r1*s1, -1, r2*s2])
denotes kc(G1, G2), whose slices are the Kronecker products of the slices (theory group 'core', spot-checked in NumPy)."""
import ast
import z3
from ttvc.symex import Unsupported, VTuple, VList, VArr, Z
from ttvc import models as M, theory as T
from ttvc.models import used, model

_orig_index = M.arr_index
_orig_binop = M.arr_binop
_orig_reshape = M.reshape


def _pattern(elts):
    out = []
    for e in elts:
        if isinstance(e, ast.Constant) and e.value is None:
            out.append('N')
        elif isinstance(e, ast.Slice) and e.lower is None and e.upper is None and e.step is None:
            out.append(':')
        else:
            return None
    return ''.join(out)


def arr_index(ex, st, a, sl_, node):
    if isinstance(a, VArr) and a.ndim == 3 and a.tag == 'core' and a.t is not None and isinstance(sl_, ast.Tuple) and len(sl_.elts) == 5:
        pat = _pattern(sl_.elts)
        r1, n, r2 = a.shape
        if pat == ':N::N':
            used('G[:, None, :, :, None] -> left factor of a Kronecker core (5-D view)')
            return VArr((r1, 1, n, r2, 1), a.t, 'kcL')
        if pat == 'N::N:':
            used('G[None, :, :, None, :] -> right factor of a Kronecker core (5-D view)')
            return VArr((1, r1, n, 1, r2), a.t, 'kcR')
    return _orig_index(ex, st, a, sl_, node)


def arr_binop(ex, st, op, l, r, node):
    if isinstance(op, ast.Mult) and isinstance(l, VArr) and isinstance(r, VArr) and l.tag == 'kcL' and r.tag == 'kcR':
        ex.oblige(st, 'call-pre', 'broadcast-mode-sizes-agree', Z(l.shape[2]) == Z(r.shape[2]), node)
        used('G1[:, None, :, :, None] * G2[None, :, :, None, :] -> 5-D array of all products of entries with equal mode index')
        return VArr((l.shape[0], r.shape[1], l.shape[2], l.shape[3], r.shape[4]), (l.t, r.t), 'kcprod')
    return _orig_binop(ex, st, op, l, r, node)


def reshape(ex, st, a, shp, order, node):
    if isinstance(a, VArr) and a.tag == 'kcprod':
        dims = M.shape_arg(ex, st, shp, node)
        g, h = a.t
        if len(dims) == 3 and isinstance(dims[1], int) and dims[1] == -1 \
                and M._same(st, dims[0], T.mul_canon(T.d0(g), T.d0(h))) and M._same(st, dims[2], T.mul_canon(T.d2(g), T.d2(h))):
            used('(5-D product).reshape([r1*s1, -1, r2*s2]) (C order) -> Kronecker core kc(G1, G2)')
            return M.mk_core(T.kc(g, h))
        raise Unsupported(f'reshape of a Kronecker product to {dims} at line {node.lineno}')
    return _orig_reshape(ex, st, a, shp, order, node)


M.arr_index = arr_index
M.arr_binop = arr_binop
M.reshape = reshape


_orig_sum = M.FUNCS.get('np.sum')


@model('np.sum')
def m_sum_axis1(ex, st, args, kwargs, node):
    a = st.deref(args[0])
    ax = kwargs.get('axis', args[1] if len(args) > 1 else None)
    if isinstance(a, VArr) and a.ndim == 3 and a.tag == 'core' and a.t is not None and isinstance(ax, int) and ax == 1:
        used('np.sum(G, axis=1) -> sum of the mode slices of a core (msum)')
        return M.mk_mat(T.msum(a.t))
    if _orig_sum is None:
        raise Unsupported('np.sum pattern')
    return _orig_sum(ex, st, args, kwargs, node)
