"""Model-table entries for the dense linear-algebra calls of teneva/maxvol.py (C08) - shapes, index validity and the
arg-max facts; values of the factorisations stay uninterpreted (fresh matrices)."""
import ast
import z3
from ttvc.symex import Unsupported, NONE, VStr, VOpt, VTuple, VRef, VList, VArr, VOpaque, Z, is_num, is_intsort
from ttvc import models as M, theory as T, vec as V
from ttvc.models import model, used, to_real

_i, _j = z3.Ints('i!l j!l')
IA = z3.ArraySort(z3.IntSort(), z3.IntSort())
M.GLOBAL_NAMES['np.inf'] = z3.Real('np_inf')


def fresh_mat(ex, st, rows, cols, name='M'):
    t = ex.fresh(name, T.Mat)
    st.assume(T.rows(t) == Z(rows), T.cols(t) == Z(cols))
    return VArr((rows, cols), t, 'mat')


def fresh_ivec(ex, st, n, lo, hi, name='idx'):
    arr = ex.fresh(name, IA)
    st.assume(z3.ForAll([_i], z3.Implies(z3.And(0 <= _i, _i < Z(n)), z3.And(arr[_i] >= Z(lo), arr[_i] < Z(hi))), patterns=[arr[_i]]))
    return VArr((n,), arr, 'ivec', 'i')


@model('scipy.linalg.lu', 'sp.linalg.lu')
def m_lu(ex, st, args, kwargs, node):
    a = st.deref(args[0])
    if not (isinstance(a, VArr) and a.ndim == 2):
        raise Unsupported('lu of a non-matrix')
    n, r = a.shape
    k = z3.If(Z(n) <= Z(r), Z(n), Z(r))
    used('scipy.linalg.lu(A) -> P (n x n permutation), L (n x k), U (k x r), k = min(n, r)   [A-LAPACK]')
    P = fresh_mat(ex, st, n, n, 'P')
    P.perm = True
    return VTuple([P, fresh_mat(ex, st, n, k, 'L'), fresh_mat(ex, st, k, r, 'U')])


@model('scipy.linalg.solve_triangular', 'sp.linalg.solve_triangular')
def m_solve_tri(ex, st, args, kwargs, node):
    a, b = st.deref(args[0]), st.deref(args[1])
    if not (isinstance(a, VArr) and a.ndim == 2 and isinstance(b, VArr) and b.ndim == 2):
        raise Unsupported('solve_triangular pattern')
    used('scipy.linalg.solve_triangular(T, B) -> X with the shape of B; requires T square with as many rows as B')
    ex.oblige(st, 'call-pre', 'solve_triangular-square-system', z3.And(Z(a.shape[0]) == Z(a.shape[1]), Z(a.shape[0]) == Z(b.shape[0])), node)
    return fresh_mat(ex, st, b.shape[0], b.shape[1], 'X')


@model('np.outer')
def m_outer(ex, st, args, kwargs, node):
    a, b = st.deref(args[0]), st.deref(args[1])
    if isinstance(a, VArr) and isinstance(b, VArr) and a.ndim == 1 and b.ndim == 1:
        used('np.outer(u, v) -> matrix of shape (len u, len v)')
        return fresh_mat(ex, st, a.shape[0], b.shape[0], 'outer')
    raise Unsupported('np.outer pattern')


class FlatArgmax:
    """Flat (C-order) position of the largest |entry| of a matrix."""
    def __init__(self, mat, pos):
        self.mat, self.pos = mat, pos


_orig_method = M.method


def method(ex, st, recv, name, args, kwargs, node):
    r = st.deref(recv)
    if isinstance(r, VArr) and name == 'argmax':
        if r.ndim == 2 and kwargs.get('axis') == 0:
            used('A.argmax(axis=0) -> for every column a row number in [0, rows)')
            return fresh_ivec(ex, st, r.shape[1], 0, r.shape[0], 'argmax')
        if not args and not kwargs and r.note and r.note[0] == 'abs' and isinstance(r.note[1], VArr) and r.note[1].ndim == 2 \
                and r.note[1].t is not None:
            used('np.abs(B).argmax() -> flat C-order position of an entry of largest modulus')
            return FlatArgmax(r.note[1], ex.fresh_int('flat'))
    if isinstance(r, VArr) and r.ndim == 1 and name in ('any', 'all') and not args and r.t is not None and r.tag in ('ivec', 'bvec', 'rvec'):
        used('v.any() / v.all() -> some / every element is non-zero (true)')
        n = Z(r.shape[0])
        nz = (lambda t: t) if r.tag == 'bvec' else (lambda t: t != 0)
        b = ex.fresh_bool(name)
        w = ex.fresh_int('witness')
        if name == 'any':
            st.assume(z3.Implies(b, z3.And(0 <= w, w < n, nz(r.t[w]))),
                      z3.Implies(z3.Not(b), z3.ForAll([_i], z3.Implies(z3.And(0 <= _i, _i < n), z3.Not(nz(r.t[_i]))), patterns=[r.t[_i]])))
        else:
            st.assume(z3.Implies(z3.Not(b), z3.And(0 <= w, w < n, z3.Not(nz(r.t[w])))),
                      z3.Implies(b, z3.ForAll([_i], z3.Implies(z3.And(0 <= _i, _i < n), nz(r.t[_i])), patterns=[r.t[_i]])))
        return b
    if isinstance(r, VArr) and name == 'dot' and len(args) == 1:
        b = st.deref(args[0])
        if r.ndim == 2 and isinstance(b, VArr) and b.ndim == 1:
            ex.oblige(st, 'call-pre', 'dot-inner-dims-agree', Z(r.shape[1]) == Z(b.shape[0]), node)
            out = V.fresh_rvec(ex, st, r.shape[0], 'dot')
            row = getattr(b, 'row_of', None)
            if row is not None and row[0] is r:
                used('B.dot(B[i]) -> v with v[i] = |row i|^2 >= 0')
                st.assume(out.t[Z(row[1])] >= 0)
            return out
    if isinstance(r, VArr) and name == 'reshape' and r.ndim == 1 and len(args) == 2 and args[0] == -1 and args[1] == 1:
        used('v.reshape(-1, 1) -> column of shape (n, 1)')
        return fresh_mat(ex, st, r.shape[0], 1, 'col')
    if isinstance(r, VArr) and name == 'T' and False:
        pass
    return _orig_method(ex, st, recv, name, args, kwargs, node)


M.method = method


@model('np.divmod')
def m_divmod(ex, st, args, kwargs, node):
    a, b = args[0], ex.need_num(st, args[1], node)
    if isinstance(a, FlatArgmax):
        B = a.mat
        used('np.divmod(flat, c) of a C-order flat position of an (n x c) matrix -> (row, column); requires c = number of columns')
        ex.oblige(st, 'call-pre', 'flat-index-split-by-the-number-of-columns', Z(b) == Z(B.shape[1]), node)
        ex.oblige(st, 'call-pre', 'non-empty-matrix', z3.And(Z(B.shape[0]) >= 1, Z(B.shape[1]) >= 1), node)
        i, j = ex.fresh_int('row'), ex.fresh_int('col')
        x, y = z3.Ints('x!m y!m')
        absv = lambda t: z3.If(t >= 0, t, -t)
        st.assume(i >= 0, i < Z(B.shape[0]), j >= 0, j < Z(B.shape[1]),
                  z3.ForAll([x, y], z3.Implies(z3.And(0 <= x, x < Z(B.shape[0]), 0 <= y, y < Z(B.shape[1])),
                                               absv(T.ent(B.t, x, y)) <= absv(T.ent(B.t, i, j))), patterns=[T.ent(B.t, x, y)]))
        st.ghost['argmax_entry'] = (B, i, j)
        return VTuple([i, j])
    raise Unsupported('np.divmod pattern')


_orig_argmax = M.FUNCS.get('np.argmax')


@model('np.argmax')
def m_argmax(ex, st, args, kwargs, node):
    v = st.deref(args[0])
    if isinstance(v, (VList, VTuple)) and _orig_argmax is not None:
        return _orig_argmax(ex, st, args, kwargs, node)
    if isinstance(v, VArr) and v.ndim == 1 and not kwargs:
        used('np.argmax(v) -> a position in [0, len v)  (requires a non-empty vector)')
        ex.oblige(st, 'call-pre', 'argmax-of-non-empty', Z(v.shape[0]) >= 1, node)
        i = ex.fresh_int('argmax')
        st.assume(i >= 0, i < Z(v.shape[0]))
        return i
    raise Unsupported('np.argmax pattern')


_orig_where = M.FUNCS['np.where']


@model('np.where')
def m_where3(ex, st, args, kwargs, node):
    if len(args) == 3:
        c = st.deref(args[0])
        if isinstance(c, VArr):
            used('np.where(cond, a, b) -> array with the shape of cond')
            return VArr(c.shape, None, None)
        raise Unsupported('np.where(cond, a, b) pattern')
    return _orig_where(ex, st, args, kwargs, node)


_orig_norm = M.FUNCS['np.linalg.norm']


@model('np.linalg.norm')
def m_norm_axis(ex, st, args, kwargs, node):
    v = st.deref(args[0])
    if kwargs.get('axis') == 1 and isinstance(v, VArr) and v.ndim == 2:
        used('np.linalg.norm(B, axis=1) -> vector of row norms')
        return VArr((v.shape[0],), None, None)
    return _orig_norm(ex, st, args, kwargs, node)


_orig_hstack = M.FUNCS['np.hstack']


@model('np.hstack')
def m_hstack1(ex, st, args, kwargs, node):
    parts = st.deref(args[0])
    if isinstance(parts, (VTuple, VList)) and len(parts.items) == 2:
        a, b = [st.deref(x) for x in parts.items]
        if isinstance(a, VArr) and isinstance(b, VArr) and a.ndim == 1 and b.ndim == 1:
            used('np.hstack([u, v]) for vectors -> concatenation')
            n = Z(a.shape[0]) + Z(b.shape[0])
            if a.tag == 'ivec' and a.t is not None:
                arr = ex.fresh('cat', IA)
                st.assume(z3.ForAll([_i], z3.Implies(z3.And(0 <= _i, _i < Z(a.shape[0])), arr[_i] == a.t[_i]), patterns=[arr[_i]]))
                if b.tag == 'zeros':
                    st.assume(z3.ForAll([_i], z3.Implies(z3.And(Z(a.shape[0]) <= _i, _i < n), arr[_i] == 0), patterns=[arr[_i]]))
                return VArr((n,), arr, 'ivec', 'i')
            return VArr((n,), None, None, a.dtype)
    return _orig_hstack(ex, st, args, kwargs, node)


_orig_zeros = M.FUNCS['np.zeros']


def m_zeros1(ex, st, args, kwargs, node):
    out = _orig_zeros(ex, st, args, kwargs, node)
    if isinstance(out, VArr) and out.ndim == 1 and ast.unparse(node.func) == 'np.zeros':
        return VArr(out.shape, None, 'zeros', 'i' if 'dtype' in kwargs else out.dtype)
    return out


M.FUNCS['np.zeros'] = m_zeros1

_orig_index = M.arr_index


def arr_index(ex, st, a, sl_, node):
    out = _orig_index(ex, st, a, sl_, node)
    # remember that a 1-D result is row i of matrix a (for B.dot(B[i]))
    if isinstance(out, VArr) and out.ndim == 1 and isinstance(a, VArr) and a.ndim == 2:
        elts = sl_.elts if isinstance(sl_, ast.Tuple) else [sl_]
        if len(elts) in (1, 2) and not isinstance(elts[0], ast.Slice):
            try:
                iv = ex.ev(elts[0], st)
                if is_num(iv) and (len(elts) == 1 or (isinstance(elts[1], ast.Slice) and elts[1].lower is None and elts[1].upper is None)):
                    out.row_of = (a, iv)
            except Unsupported:
                pass
    return out


M.arr_index = arr_index
_orig_store = M.store


def store(ex, st, base, sl_, v, node, base_node):
    b = st.deref(base)
    if isinstance(b, VArr) and b.ndim == 1 and b.tag == 'ivec' and b.t is not None and isinstance(base_node, ast.Name) \
            and not isinstance(sl_, (ast.Slice, ast.Tuple)):
        iv = st.deref(ex.ev(sl_, st))
        if is_num(iv):
            used('I[j] = i on an integer vector -> element update (requires the position in range)')
            j = M.norm_index(ex, st, iv, b.shape[0], node, 'array-index')
            val = Z(ex.need_num(st, v, node))
            new = ex.fresh('upd', IA)
            st.assume(new == z3.Store(b.t, Z(j), val))
            st.vars[base_node.id] = VArr(b.shape, new, 'ivec', 'i')
            return
    return _orig_store(ex, st, base, sl_, v, node, base_node)


M.store = store
